#!/venv/bin/python
"""Driver:  ./check.py <Cxx> --tier quick|thorough        seeded search over simulated runs
            ./check.py <Cxx> --replay <file>               reproduce a recorded violation

exit 0  the property held on everything explored (KNOWN-FINDING lines may be printed)
exit 1  'VIOLATION property=<id> replay=<path>' for a violation not listed as known
exit 2  HARNESS-ERROR (the simulator itself failed; nothing is claimed)
"""

import argparse
import hashlib
import json
import os
import sys
import time

HERE = os.path.dirname(os.path.abspath(__file__))

if os.environ.get("PYTHONHASHSEED") != "0":
    os.environ["PYTHONHASHSEED"] = "0"
    os.execv(sys.executable, [sys.executable] + sys.argv)

sys.path.insert(0, HERE)
sys.dont_write_bytecode = True

import faulthandler  # noqa: E402
import multiprocessing  # noqa: E402
from concurrent.futures import ProcessPoolExecutor  # noqa: E402

from sim import registry, shrink as shrinker, findings  # noqa: E402

EVIDENCE_DIR = os.path.join(HERE, "evidence")
REPLAY_DIR = os.path.join(HERE, "replays")


def _job(args):
    """One worker: runs its share of one part until the deadline / count cap."""
    prop, part_i, worker, nworkers, seconds, seed, tier = args
    # watchdog against hangs only (a loaded machine can slow a complete sweep down many times over)
    faulthandler.dump_traceback_later(seconds * 3 + 900, exit=True)
    part = registry.parts(prop)[part_i]
    t0 = time.time()
    deadline = t0 + seconds
    out = {"part": part.name, "runs": 0, "events": 0, "keys": set(), "flags": {}, "faults": {},
           "samples": [], "violations": [], "foreign": {}, "harness": [], "states": set(),
           "interleavings": set(), "probes": {}, "worker": worker, "complete": True, "sim_steps": 0,
           "known": {}}
    kf = findings.load()
    items = part.items(seed, tier, worker, nworkers)
    for idx, prog in items:
        if time.time() > deadline and not part.must_complete:
            out["complete"] = False
            break
        res = part.run(prog)
        out["runs"] += 1
        out["events"] += res.events
        if res.harness_error:
            out["harness"].append({"idx": idx, "error": res.harness_error[-2000:], "prog": prog})
            if len(out["harness"]) > 3:
                break
            continue
        k = part.key(prog, res)
        if k is not None:
            out["keys"].add(hashlib.sha1(repr(k).encode()).hexdigest()[:16])
        for f in res.flags:
            out["flags"][f] = out["flags"].get(f, 0) + 1
        for f, n in res.stats.get("faults", {}).items():
            out["faults"][f] = out["faults"].get(f, 0) + n
        for f, n in res.stats.get("probes", {}).items():
            out["probes"][f] = out["probes"].get(f, 0) + n
        out["states"] |= res.states
        sig = res.stats.get("interleaving")
        if sig is not None:
            out["interleavings"].add(sig)
        if len(out["samples"]) < 2 and k is not None:
            out["samples"].append(part.sample(prog, res))
        mine = res.for_prop(prop)
        if mine:
            kn = findings.match(prop, kf, part, prog, mine[0].to_json())
            if kn is not None:
                out["known"][kn["id"]] = out["known"].get(kn["id"], 0) + 1
                continue
            out["violations"].append({"idx": idx, "prog": prog, "v": mine[0].to_json(),
                                      "digest": res.digest})
            if len(out["violations"]) >= 3:
                break
        elif res.violations:
            s = res.violations[0].sig
            out["foreign"][s] = out["foreign"].get(s, 0) + 1
    faulthandler.cancel_dump_traceback_later()
    out["wall"] = time.time() - t0
    return out


def fails_same(part, prop, sig):
    def f(prog):
        res = part.run(prog)
        if res.harness_error:
            return False
        return any(v.sig == sig for v in res.for_prop(prop))
    return f


def write_replay(prop, part, prog, v, digest):
    os.makedirs(REPLAY_DIR, exist_ok=True)
    body = {"property": prop, "part": part.name, "engine": part.engine, "prog": prog,
            "expected_sig": v["sig"], "violation": v, "event_log_digest": digest}
    blob = json.dumps(body, sort_keys=True, indent=1)
    name = "%s-%s.json" % (prop, hashlib.sha1(blob.encode()).hexdigest()[:12])
    path = os.path.join(REPLAY_DIR, name)
    with open(path, "w") as f:
        f.write(blob)
    return path


def replay(prop, path, quiet=False):
    """Re-execute a replay file.  quiet=True prints nothing (used for regression replays of the
    known-findings file, whose outcome the caller reports)."""
    body = json.load(open(path))
    part = registry.part_by_name(body["property"], body["part"])
    res = part.run(body["prog"])
    if res.harness_error:
        if not quiet:
            print("HARNESS-ERROR replay %s: %s" % (path, res.harness_error[-1500:]))
        return 2
    mine = res.for_prop(body["property"])
    if mine:
        same = [v for v in mine if v.sig == body.get("expected_sig")]
        v = (same or mine)[0]
        if not quiet:
            print("replayed: %s" % json.dumps(v.to_json())[:3000])
            print("event-log digest %s (recorded %s)" % (res.digest, body.get("event_log_digest")))
            print("VIOLATION property=%s replay=%s" % (body["property"], path))
        return 1
    if not quiet:
        print("replay %s: no violation of %s (digest %s)" % (path, body["property"], res.digest))
    return 0


def sweep_stale_sandboxes():
    """Remove sandboxes left behind by killed workers (owner process no longer alive)."""
    import re
    import shutil
    from sim import world
    base = world.scratch_base()
    try:
        names = os.listdir(base)
    except OSError:
        return
    for n in names:
        m = re.match(r"hsv-(\d+)-", n)
        if not m:
            continue
        try:
            os.kill(int(m.group(1)), 0)
        except ProcessLookupError:
            shutil.rmtree(os.path.join(base, n), ignore_errors=True)
        except PermissionError:
            pass


def main():
    ap = argparse.ArgumentParser()
    ap.add_argument("prop")
    ap.add_argument("--tier", default=os.environ.get("VERIF_TIER", "quick"), choices=["quick", "thorough"])
    ap.add_argument("--replay")
    ap.add_argument("--workers", type=int, default=None)
    ap.add_argument("--budget", type=float, default=None)
    ap.add_argument("--seed", type=int, default=None)
    ap.add_argument("--no-shrink", action="store_true")
    ap.add_argument("--no-evidence", action="store_true")
    a = ap.parse_args()
    prop = a.prop
    if a.replay:
        sys.exit(replay(prop, a.replay))
    seed = a.seed if a.seed is not None else int(os.environ.get("VERIF_SEED", "20261004"))
    tier = a.tier
    print("check %s tier=%s VERIF_SEED=%d repo=%s" % (prop, tier, seed, os.environ.get("VERIF_REPO", "/repo")))
    sweep_stale_sandboxes()
    t0 = time.time()
    parts = registry.parts(prop)
    ncpu = os.cpu_count() or 4
    nworkers = a.workers or (min(ncpu, 16) if tier == "thorough" else min(ncpu, 8))
    budget = a.budget if a.budget is not None else float(
        os.environ.get("VERIF_BUDGET_S", "0") or 0) or registry.budget(prop, tier)
    total_w = float(sum(p.weight for p in parts))
    ctx = multiprocessing.get_context("fork")
    merged = []
    harness = []
    # regression replays of fixed findings and listed known findings
    kf = findings.load()
    known_lines, regress_fail = findings.preflight(prop, kf, lambda p: replay(prop, p, quiet=True))
    for ln in known_lines:
        print(ln)
    with ProcessPoolExecutor(max_workers=nworkers, mp_context=ctx) as ex:
        futs = []
        for pi, part in enumerate(parts):
            secs = budget * part.weight / total_w
            for w in range(nworkers):
                futs.append(ex.submit(_job, (prop, pi, w, nworkers, secs, seed, tier)))
        for f in futs:
            try:
                merged.append(f.result(timeout=budget * 4 + 900))
            except Exception as e:  # dead worker, timeout
                harness.append("worker failed: %r" % (e,))
    for m in merged:
        for h in m["harness"]:
            harness.append("part %s run %s: %s" % (m["part"], h["idx"], h["error"]))
    violations = []
    for m in merged:
        for v in m["violations"]:
            violations.append((m["part"], v))
    violations.sort(key=lambda x: (x[0], x[1]["idx"]))
    exit_code = 0
    reported = []
    seen_sigs = set()
    known_hit = _merge_counts(m["known"] for m in merged)
    for pname, v in violations:
        sig = v["v"]["sig"]
        if sig in seen_sigs:
            continue
        seen_sigs.add(sig)
        part = registry.part_by_name(prop, pname)
        prog = v["prog"]
        kn = findings.match(prop, kf, part, prog, v["v"])
        if kn is not None:
            known_hit[kn["id"]] = known_hit.get(kn["id"], 0) + 1
            continue
        if not a.no_shrink:
            prog = shrinker.shrink(prog, fails_same(part, prop, sig), budget_s=45.0 if tier == "quick" else 120.0)
        res = part.run(prog)
        mine = [x for x in res.for_prop(prop) if x.sig == sig] or res.for_prop(prop)
        if not mine:
            harness.append("violation %s did not reproduce in the parent process" % sig)
            continue
        kn = findings.match(prop, kf, part, prog, mine[0].to_json())
        if kn is not None:
            known_hit[kn["id"]] = known_hit.get(kn["id"], 0) + 1
            continue
        path = write_replay(prop, part, prog, mine[0].to_json(), res.digest)
        # confirm in a fresh interpreter
        import subprocess
        rc = subprocess.call([sys.executable, os.path.abspath(__file__), prop, "--replay", path],
                             stdout=subprocess.DEVNULL, stderr=subprocess.DEVNULL)
        if rc != 1:
            harness.append("replay %s did not reproduce in a fresh interpreter (rc=%d)" % (path, rc))
            continue
        print("violation: %s" % json.dumps(mine[0].to_json())[:2500])
        print("VIOLATION property=%s replay=%s" % (prop, path))
        reported.append(path)
        exit_code = 1
        if len(reported) >= 3:
            break
    for p in regress_fail:
        print("VIOLATION property=%s replay=%s" % (prop, p))
        exit_code = 1
    wall = time.time() - t0
    if not a.no_evidence:
        write_evidence(prop, tier, seed, parts, merged, wall, len(reported) + len(regress_fail),
                       known_hit, harness, nworkers)
    runs = sum(m["runs"] for m in merged)
    print("%s: %d runs, %d seam events, %.1fs, %d workers; violations=%d known-hits=%s foreign=%s" % (
        prop, runs, sum(m["events"] for m in merged), wall, nworkers, len(reported),
        known_hit, _merge_counts(m["foreign"] for m in merged)))
    if harness:
        for h in harness[:5]:
            print("HARNESS-ERROR %s" % " | ".join(h.strip().splitlines()[-7:]))
        sys.exit(2)
    sys.exit(exit_code)


def _merge_counts(dicts):
    out = {}
    for d in dicts:
        for k, v in d.items():
            out[k] = out.get(k, 0) + v
    return out


def write_evidence(prop, tier, seed, parts, merged, wall, nviol, known_hit, harness, nworkers):
    os.makedirs(EVIDENCE_DIR, exist_ok=True)
    runs = sum(m["runs"] for m in merged)
    keys = set()
    for m in merged:
        keys |= set((m["part"], k) for k in m["keys"])
    per_part = {}
    for m in merged:
        pp = per_part.setdefault(m["part"], {"runs": 0, "events": 0, "distinct_nontrivial": set(),
                                             "complete": True, "wall_s": 0.0})
        pp["runs"] += m["runs"]
        pp["events"] += m["events"]
        pp["distinct_nontrivial"] |= m["keys"]
        pp["complete"] = pp["complete"] and m["complete"]
        pp["wall_s"] = max(pp["wall_s"], m["wall"])
    for pp in per_part.values():
        pp["distinct_nontrivial"] = len(pp["distinct_nontrivial"])
    samples = []
    for m in merged:
        for s in m["samples"]:
            if len(samples) < 6 and m["worker"] < 3:
                samples.append(s)
    states = set()
    inter = set()
    for m in merged:
        states |= m["states"]
        inter |= m["interleavings"]
    pdesc = dict((p.name, {"engine": p.engine, "rule": p.rule, "exhaustive": bool(p.must_complete)}) for p in parts)
    events = sum(m["events"] for m in merged)
    ev = {
        "property_id": prop,
        "tier": tier,
        "seed": seed,
        "level": registry.level(prop),
        "coverage": {
            "evaluations": runs,
            "distinct_nontrivial": len(keys),
            "rule": registry.rule(prop),
            "samples": samples,
            "exhaustive": bool(all(p.must_complete for p in parts)) and all(m["complete"] for m in merged),
            "parts": per_part,
            "part_rules": pdesc,
            "runs_per_hour": int(runs / wall * 3600) if wall > 0 else 0,
            "simulated_time": {"unit": "seam events (HashStore has no clock; simulated time = number of "
                                       "intercepted file-system / lock steps)", "events": events},
            "fault_kinds_fired": _merge_counts(m["faults"] for m in merged),
            "probes_hit": _merge_counts(m["probes"] for m in merged),
            "flags": _merge_counts(m["flags"] for m in merged),
            "distinct_abstract_states": len(states),
            "distinct_interleavings": len(inter),
            "interleaving_measure": "distinct partial-order signatures: per shared resource (path or lock) the "
                                    "sequence of (task, operation kind) accesses",
            "foreign_disagreements": _merge_counts(m["foreign"] for m in merged),
            "known_findings_hit": known_hit,
            "workers": nworkers,
            "components_real": ["hashstore.filehashstore (FileHashStore, Stream, ObjectMetadata)", "shutil",
                                "tempfile", "pathlib", "hashlib", "yaml", "kernel file system (tmpfs sandbox)"],
            "components_stub": ["threading.Lock/Condition (SimLock/SimCondition under the seeded scheduler)",
                                "multiprocessing.Lock/Condition/Manager().list() (simulated processes)",
                                "fcntl.flock (simulated lock table)", "atexit (recorder)",
                                "tempfile name sequence (seeded counter)", "st_blksize (knob)",
                                "process death (directory snapshot + BaseException unwind)"],
            "harness_errors": harness[:5],
        },
        "assumptions": registry.assumptions(prop),
        "wall_s": round(wall, 2),
        "violations": nviol,
    }
    with open(os.path.join(EVIDENCE_DIR, "%s.json" % prop), "w") as f:
        json.dump(ev, f, indent=1, sort_keys=True, default=str)


if __name__ == "__main__":
    main()
