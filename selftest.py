#!/venv/bin/python
"""Self-tests of the machinery (not property checks):

  ./selftest.py determinism [--n 150]     same VERIF_SEED twice, other worker count, other
                                          PYTHONHASHSEED in a fresh interpreter: event-log digests equal
  ./selftest.py mutants [--only NAME]     sensitivity: each catalogued mutant of hashstore, applied to a
                                          scratch copy, must be caught by the named property's quick check
  ./selftest.py forkcheck [--n 40]        crash stub vs real fork()+os._exit: directories equal
"""

import argparse
import hashlib
import json
import os
import shutil
import subprocess
import sys
import time

HERE = os.path.dirname(os.path.abspath(__file__))
sys.path.insert(0, HERE)
sys.dont_write_bytecode = True


def _digests(args):
    prop, lo, hi, seed = args
    from sim import registry, gen
    out = {}
    for part in registry.parts(prop):
        it = part.items(seed, "quick", 0, 1)
        k = 0
        for idx, prog in it:
            if k >= hi:
                break
            if k >= lo:
                res = part.run(prog)
                sig = hashlib.sha1(repr((res.digest, sorted(v.sig for v in res.violations), res.harness_error,
                                         res.stats.get("decisions"), sorted(res.flags))).encode()).hexdigest()
                out["%s/%s/%d" % (prop, part.name, idx)] = sig
            k += 1
    return out


def cmd_digest_dump(a):
    """Used by the fresh-interpreter comparison: print the digest map as JSON."""
    from sim import registry
    registry._ensure()
    out = {}
    for prop in a.props:
        out.update(_digests((prop, 0, a.n, a.seed)))
    json.dump(out, sys.stdout)


def cmd_determinism(a):
    from concurrent.futures import ProcessPoolExecutor
    import multiprocessing
    from sim import registry
    registry._ensure()
    props = a.props or sorted(registry._TABLE)
    t0 = time.time()
    ctx = multiprocessing.get_context("fork")
    maps = []
    for nworkers, chunks in ((16, 8), (3, 2)):
        jobs = []
        for prop in props:
            step = max(a.n // chunks, 1)
            for lo in range(0, a.n, step):
                jobs.append((prop, lo, min(lo + step, a.n), a.seed))
        m = {}
        with ProcessPoolExecutor(max_workers=nworkers, mp_context=ctx) as ex:
            for r in ex.map(_digests, jobs):
                m.update(r)
        maps.append(m)
    # fresh interpreter, another hash seed
    env = dict(os.environ, PYTHONHASHSEED="12345")
    n3 = max(a.n // 4, 10)
    outp = subprocess.check_output([sys.executable, os.path.abspath(__file__), "digest-dump", "--n", str(n3),
                                    "--seed", str(a.seed)] + sum((["--props", p] for p in props), []), env=env)
    m3 = json.loads(outp)
    bad = 0
    for k, v in maps[0].items():
        if maps[1].get(k) != v:
            print("NONDETERMINISTIC (worker count) %s" % k)
            bad += 1
    for k, v in m3.items():
        if maps[0].get(k) != v:
            print("NONDETERMINISTIC (hash seed / fresh interpreter) %s" % k)
            bad += 1
    print("determinism: %d runs x2 (16 vs 3 workers) + %d in a fresh interpreter under PYTHONHASHSEED=12345; "
          "%d mismatches; %.0fs" % (len(maps[0]), len(m3), bad, time.time() - t0))
    return 1 if bad else 0


# ---------------------------------------------------------------------------------------------
# mutants: (name, property expected to catch it, [(old, new), ...]) on src/hashstore/filehashstore.py
# ---------------------------------------------------------------------------------------------
F = "src/hashstore/filehashstore.py"
MUTANTS = [
    ("C01-no-seek0", "C01", [("        self._obj.seek(0)\n\n        while True:", "        while True:")]),
    ("C01-stop-at-short-read", "C01", [("            if not data:\n                break\n\n            yield data",
                                        "            if not data:\n                break\n\n            yield data\n            if len(data) < self._buffer_size:\n                break")]),
    ("C01-no-restore-position", "C01", [("        if self._pos is None:\n            self._obj.close()\n        else:\n            self._obj.seek(self._pos)",
                                         "        if self._pos is None:\n            self._obj.close()"),
                                        ("        if self._pos is not None:\n            self._obj.seek(self._pos)\n\n    def close", "    def close")]),
    ("C02-alias-default-list", "C02", [("algorithm_list_to_calculate = list(self.default_algo_list)", "algorithm_list_to_calculate = self.default_algo_list")]),
    ("C03-overwrite-on-retag", "C03", [("                    error_msg = f\"Pid refs file already exists for pid: {pid}.\"\n                    self.fhs_logger.error(error_msg)\n                    raise PidRefsAlreadyExistsError(error_msg)",
                                        "                    error_msg = f\"Pid refs file already exists for pid: {pid}.\"\n                    self.fhs_logger.error(error_msg)")]),
    ("C04-delete-object-ignores-list", "C04", [("            if os.path.isfile(cid_refs_abs_path):\n                debug_msg = (\n                    f\"Cid reference file exists for: {cid}, skipping delete request.\"",
                                               "            if False and os.path.isfile(cid_refs_abs_path):\n                debug_msg = (\n                    f\"Cid reference file exists for: {cid}, skipping delete request.\"")]),
    ("C05-substring-membership", "C05", [("                value = line.strip()\n                if ref_id == value:", "                value = line.strip()\n                if ref_id in value:")]),
    ("C05-leave-empty-list", "C05", [("                    if os.path.getsize(cid_ref_abs_path) == 0:\n                        debug_msg = (", "                    if os.path.getsize(cid_ref_abs_path) < 0:\n                        debug_msg = (")]),
    ("C06-case-sensitive-on-demand", "C06", [("if hex_digest_calculated != checksum.lower():", "if hex_digest_calculated != checksum:")]),
    ("C06-skip-size-check-dup", "C06", [("        if file_size_to_validate is not None and file_size_to_validate > 0:\n            if file_size_to_validate != tmp_file_size:",
                                         "        if file_size_to_validate is not None and file_size_to_validate > 0 and tmp_file_name is not None and os.path.isfile(tmp_file_name) and not self._exists(\"objects\", hex_digests.get(self.algorithm, \"\")):\n            if file_size_to_validate != tmp_file_size:")]),
    ("C07-no-reference-pid-claim-in-delete", "C07", [("            # Tagging is synchronized on the reference locked pids, wait for it as well\n            self._synchronize_referenced_locked_pids(pid)\n", "            self.reference_locked_pids_th.append(pid) if not self.use_multiprocessing else self.reference_locked_pids_mp.append(pid)\n")]),
    ("C07-no-restore-after-tag", "C07", [("                        if not self._exists(\"objects\", cid):", "                        if False:")]),
    ("C07-cid-wait-if-instead-of-while", "C07", [("                while cid in self.object_locked_cids_th:\n                    self.fhs_logger.debug(f\"Cid ({cid}) is locked. Waiting.\")\n                    self.object_cid_condition_th.wait()",
                                                  "                if cid in self.object_locked_cids_th:\n                    self.fhs_logger.debug(f\"Cid ({cid}) is locked. Waiting.\")\n                    self.object_cid_condition_th.wait()")]),
    ("C07-cid-claim-appended-after-condition-released", "C07", [("                    self.object_cid_condition_th.wait()\n                self.object_locked_cids_th.append(cid)\n",
                                                                  "                    self.object_cid_condition_th.wait()\n            self.object_locked_cids_th.append(cid)\n")]),
    ("C08-release-not-in-finally", "C08", [("                finally:\n                    # Release cid\n                    self._release_object_locked_cids(cid)\n\n            except OrphanPidRefsFileFound:",
                                           "                    self._release_object_locked_cids(cid)\n                finally:\n                    pass\n\n            except OrphanPidRefsFileFound:")]),
    ("C08-no-notify-on-pid-release", "C08", [("                self.object_locked_pids_th.remove(pid)\n                self.object_pid_condition_th.notify()", "                self.object_locked_pids_th.remove(pid)")]),
    ("C09-object-copied-in-place", "C09", [("                shutil.move(tmp_file_name, abs_file_path)\n            except Exception as err:", "                shutil.copyfile(tmp_file_name, abs_file_path)\n                os.remove(tmp_file_name)\n            except Exception as err:")]),
    ("C09-metadata-written-in-place", "C09", [("                shutil.move(metadata_tmp, full_path)\n", "                shutil.copyfile(metadata_tmp, full_path)\n                os.remove(metadata_tmp)\n")]),
    ("C10-pid-ref-written-in-place", "C10", [("                pid_tmp_file_path = self._write_refs_file(tmp_root_path, cid, \"pid\")\n                cid_tmp_file_path = self._write_refs_file(tmp_root_path, pid, \"cid\")\n                shutil.move(pid_tmp_file_path, pid_refs_path)\n",
                                              "                cid_tmp_file_path = self._write_refs_file(tmp_root_path, pid, \"cid\")\n                with open(pid_refs_path, \"w\", encoding=\"utf8\") as _pf:\n                    _pf.write(cid[:8])\n                    _pf.flush()\n                    _pf.write(cid[8:])\n")]),
    ("C10-no-orphan-cleanup", "C10", [("            except OrphanPidRefsFileFound:\n                warn_msg = (\n                    f\"Orphan pid reference file found for pid: {pid}. Skipping object deletion. \"",
                                       "            except IdentifierNotLocked:\n                warn_msg = (\n                    f\"Orphan pid reference file found for pid: {pid}. Skipping object deletion. \"")]),
    ("C11-doc-name-from-pid-only", "C11", [("        pid_doc = self._computehash(pid + checked_format_id)\n\n        sync_begin_debug_msg = (\n            f\" Adding pid: {pid} to locked list, with format_id: {checked_format_id} with doc \"",
                                            "        pid_doc = self._computehash(pid)\n\n        sync_begin_debug_msg = (\n            f\" Adding pid: {pid} to locked list, with format_id: {checked_format_id} with doc \"")]),
    ("C10-cid-list-rewritten-in-place", "C10", [("                    tmp_root_path = self._get_store_path(\"refs\") / \"tmp\"\n                    with self._mktmpfile(tmp_root_path) as tmp_file:\n                        tmp_file_path = tmp_file.name\n                    with open(tmp_file_path, \"w\", encoding=\"utf8\") as tmp_ref_file:\n                        tmp_ref_file.writelines(new_pid_lines)\n                    shutil.move(tmp_file_path, refs_file_path)\n",
                                                 "                    ref_file.seek(0)\n                    ref_file.writelines(new_pid_lines)\n                    ref_file.truncate()\n")]),
    ("C11-retrieve-ignores-default-ns", "C11", [("            metadata_document_name = self._computehash(pid + self.sysmeta_ns)\n        else:\n            metadata_document_name = self._computehash(pid + checked_format_id)",
                                                 "            metadata_document_name = self._computehash(pid)\n        else:\n            metadata_document_name = self._computehash(pid + checked_format_id)")]),
    ("C12-metadata-written-in-place", "C12", [("                shutil.move(metadata_tmp, full_path)\n", "                shutil.copyfile(metadata_tmp, full_path)\n                os.remove(metadata_tmp)\n")]),
    ("C12-delete-waits-on-pid", "C12", [("                            while pid_doc in self.metadata_locked_docs_th:\n                                self.fhs_logger.debug(sync_wait_msg)", "                            while pid in self.metadata_locked_docs_th:\n                                self.fhs_logger.debug(sync_wait_msg)"),
                                        ("                    while pid_doc in self.metadata_locked_docs_th:\n                        self.fhs_logger.debug(sync_wait_msg)\n                        self.metadata_condition_th.wait()\n                    self.fhs_logger.debug(sync_begin_debug_msg)\n                    self.metadata_locked_docs_th.append(pid_doc)\n            try:\n                full_path_without_directory",
                                         "                    while pid in self.metadata_locked_docs_th:\n                        self.fhs_logger.debug(sync_wait_msg)\n                        self.metadata_condition_th.wait()\n                    self.fhs_logger.debug(sync_begin_debug_msg)\n                    self.metadata_locked_docs_th.append(pid_doc)\n            try:\n                full_path_without_directory")]),
    ("C13-swallow-tag-error", "C13", [("                if tagging_started:\n                    self._untag_object(pid, cid)\n                raise ue", "                if tagging_started:\n                    self._untag_object(pid, cid)\n                return")]),
    ("C13-no-rollback", "C13", [("                if tagging_started:\n                    self._untag_object(pid, cid)\n                raise ue", "                raise ue")]),
    ("C14-compare-only-depth-width", "C14", [("                    if hashstore_yaml_dict[key] != supplied_key:", "                    if key in (\"store_depth\", \"store_width\") and hashstore_yaml_dict[key] != supplied_key:")]),
    ("C14-no-int-coercion-on-compare", "C14", [("                        supplied_key = int(properties[key])", "                        supplied_key = properties[key]")]),
    ("C16-mp-cid-release-missing-notify", "C16", [("                self.object_locked_cids_mp.remove(cid)\n                self.object_cid_condition_mp.notify()", "                self.object_locked_cids_mp.remove(cid)")]),
    ("C16-mp-pid-check-wrong-list", "C16", [("                        if pid in self.object_locked_pids_mp:\n                            self.fhs_logger.error(err_msg)", "                        if pid in self.reference_locked_pids_mp:\n                            self.fhs_logger.error(err_msg)"),
                                            ("                while pid in self.object_locked_pids_mp:", "                while pid in self.reference_locked_pids_mp:")]),
    ("C17-size-checked-after-store", "C17", [("            self._check_integer(expected_object_size)\n            (\n                additional_algorithm_checked,", "            (\n                additional_algorithm_checked,"),
                                             ("                    self.fhs_logger.debug(\"Attempting to tag object for pid: %s\", pid)\n                    cid = object_metadata.cid", "                    self._check_integer(expected_object_size)\n                    cid = object_metadata.cid")]),
    ("C17-retrieve-creates-dir", "C17", [("        object_info_dict = self._find_object(pid)\n        object_cid = object_info_dict.get(\"cid\")\n        entity = \"objects\"", "        self._create_path(Path(os.path.dirname(self._get_hashstore_pid_refs_path(pid))))\n        object_info_dict = self._find_object(pid)\n        object_cid = object_info_dict.get(\"cid\")\n        entity = \"objects\"")]),
    ("C18-casefold-pid-hash", "C18", [("        hash_id = self._computehash(pid, self.algorithm)\n        root_dir = self._get_store_path(\"pid\")", "        hash_id = self._computehash(pid.lower(), self.algorithm)\n        root_dir = self._get_store_path(\"pid\")")]),
    ("C18-metadata-dir-from-truncated-pid", "C18", [("        metadata_directory = self._computehash(pid)\n        metadata_document_name = metadata_doc_name", "        metadata_directory = self._computehash(pid[:64])\n        metadata_document_name = metadata_doc_name")]),
    ("C19-skip-validation-for-duplicates", "C19", [("            # If the data object already exists, do not move the file but attempt to verify it\n            try:\n                self._verify_object_information(\n                    pid,\n                    checksum,",
                                                   "            # If the data object already exists, do not move the file but attempt to verify it\n            try:\n                self._verify_object_information(\n                    pid,\n                    None,")]),
]

EXTRA_CODE = {}


def apply_mutant(repo, name):
    for n, prop, edits in MUTANTS:
        if n != name:
            continue
        path = os.path.join(repo, F)
        s = open(path).read()
        for old, new in edits:
            if old not in s:
                raise RuntimeError("mutant %s: anchor not found: %r" % (name, old[:80]))
            s = s.replace(old, new, 1)
        if name in EXTRA_CODE:
            code, anchor = EXTRA_CODE[name]
            if anchor not in s:
                raise RuntimeError("mutant %s: extra anchor not found" % name)
            s = s.replace(anchor, code.lstrip("\n"), 1)
        open(path, "w").write(s)
        return prop
    raise KeyError(name)


def cmd_mutants(a):
    base = "/dev/shm/hsv-mutants-%d" % os.getpid()
    results = []
    os.makedirs(base, exist_ok=True)
    try:
        names = [m[0] for m in MUTANTS if (not a.only or m[0] in a.only)]
        for name in names:
            repo = os.path.join(base, name)
            shutil.rmtree(repo, ignore_errors=True)
            os.makedirs(repo)
            shutil.copytree("/repo/src", os.path.join(repo, "src"))
            shutil.copytree("/repo/tests", os.path.join(repo, "tests"))
            for f in ("pyproject.toml", "README.md"):
                if os.path.exists(os.path.join("/repo", f)):
                    shutil.copy(os.path.join("/repo", f), repo)
            prop = apply_mutant(repo, name)
            t0 = time.time()
            env = dict(os.environ, VERIF_REPO=repo)
            props = [prop] + [p for p in (a.also or [])]
            caught = False
            for p in props:
                r = subprocess.run([os.path.join(HERE, "check.py"), p, "--tier", "quick", "--no-evidence",
                                    "--budget", str(a.budget)], env=env, stdout=subprocess.PIPE,
                                   stderr=subprocess.STDOUT, text=True)
                line = [l for l in r.stdout.splitlines() if l.startswith("VIOLATION")]
                herr = [l for l in r.stdout.splitlines() if l.startswith("HARNESS-ERROR")]
                if r.returncode == 1 and line:
                    caught = True
                status = "caught" if (r.returncode == 1 and line) else ("HARNESS" if herr else "MISSED")
                tests = ""
                if a.tests:
                    tr = subprocess.run(["/venv/bin/python", "-m", "pytest", "-q", "-x", "-p", "no:cacheprovider",
                                         "-n", "8", "--timeout=600"], cwd=repo, stdout=subprocess.PIPE,
                                        stderr=subprocess.STDOUT, text=True,
                                        env=dict(os.environ, PYTHONPATH=os.path.join(repo, "src")))
                    tests = " tests:" + tr.stdout.strip().splitlines()[-1][:60]
                print("%-42s %s by %s rc=%d %.0fs%s" % (name, status, p, r.returncode, time.time() - t0, tests), flush=True)
                if herr:
                    print("     " + herr[0][:400])
            results.append((name, caught))
            shutil.rmtree(repo, ignore_errors=True)
            for f in os.listdir(os.path.join(HERE, "replays")) if os.path.isdir(os.path.join(HERE, "replays")) else []:
                if f.endswith(".json"):
                    os.remove(os.path.join(HERE, "replays", f))
    finally:
        shutil.rmtree(base, ignore_errors=True)
    missed = [n for n, c in results if not c]
    print("mutants: %d/%d caught; missed: %s" % (len(results) - len(missed), len(results), missed))
    return 1 if missed else 0


def cmd_forkcheck(a):
    os.environ.setdefault("PYTHONHASHSEED", "0")
    from sim import gen, single, world as W
    import random
    bad = 0
    n = 0
    rng = random.Random(a.seed)
    menu = [(sn, su, cn, c) for sn, su in gen.single_states() for cn, c in gen.single_calls(extended=True)]
    for _ in range(a.n):
        sn, su, cn, call = rng.choice(menu)
        h = gen.single_header(write_through=rng.random() < 0.5, blksize=rng.choice([None, 4]))
        prog = dict(h, engine="crash", setup=su, call=call, crash={"index": rng.randrange(0, 14)})
        eng = single.CrashEngine(prog, keep=True)
        res = eng.run()
        if res.harness_error:
            print("HARNESS", res.harness_error[-500:])
            bad += 1
            continue
        if res.stats.get("nofire"):
            eng.world.cleanup()
            continue
        box = single.fork_crash_dir(prog)
        # the in-process snapshot was consumed by the recovery; take a fresh one without recovery
        eng2 = single.CrashEngine(dict(prog), keep=True)
        snap = snapshot_only(prog)
        a1 = W.snapshot(os.path.join(box, "store"))
        a2 = W.snapshot(os.path.join(snap, "store"))
        n += 1
        if a1 != a2:
            bad += 1
            print("FORK-MISMATCH", sn, cn, prog["crash"], sorted(set(a1.items()) ^ set(a2.items()))[:6])
        shutil.rmtree(box, ignore_errors=True)
        shutil.rmtree(snap, ignore_errors=True)
        eng.world.cleanup()
    print("forkcheck: %d crash states compared with real fork()+os._exit, %d mismatches" % (n, bad))
    return 1 if bad else 0


def cmd_realmp(a):
    """C16 (b): short histories with the REAL multiprocessing.Lock / Condition / Manager().list() in one
    process (seam off). Validates the simulated multiprocessing primitives against the real ones; not part
    of the registered checks because manager server processes are outside the simulator's control."""
    os.environ.setdefault("PYTHONHASHSEED", "0")
    from sim import registry, props
    registry._ensure()
    part = props.real_mp_part()
    n = bad = 0
    for idx, prog in part.items(a.seed, "quick", 0, 1):
        res = part.run(prog)
        n += 1
        if res.harness_error or res.violations:
            bad += 1
            print("REAL-MP disagreement", idx, (res.harness_error or "")[-300:],
                  [v.sig for v in res.violations][:3])
        if n >= a.n:
            break
    print("realmp: %d histories with real multiprocessing primitives, %d disagreements with the model" % (n, bad))
    return 1 if bad else 0


def snapshot_only(prog):
    """In-process crash snapshot without running the recovery."""
    from sim import single, seam, world as W
    w = W.World(prog)
    box = W.new_sandbox("snaponly")
    shutil.rmtree(box)
    os.makedirs(os.path.join(box, "input"))
    with seam.activate(w.run, 0):
        w.open_store()
        mdl = w.model()
        single.run_setup(w, mdl, prog.get("setup", []))
        w.run.crash_at = prog["crash"]["index"]
        w.run.crash_kinds = seam.MUTATING
        w.run.crash_snapshot = os.path.join(box, "store")
        try:
            w.exec_op(prog["call"])
        except seam.SimCrash:
            pass
    w.cleanup()
    return box


def main():
    ap = argparse.ArgumentParser()
    ap.add_argument("cmd", choices=["determinism", "mutants", "forkcheck", "realmp", "digest-dump"])
    ap.add_argument("--n", type=int, default=120)
    ap.add_argument("--seed", type=int, default=7)
    ap.add_argument("--props", action="append")
    ap.add_argument("--only", action="append")
    ap.add_argument("--also", action="append")
    ap.add_argument("--budget", type=float, default=25)
    ap.add_argument("--tests", action="store_true")
    a = ap.parse_args()
    if a.cmd != "mutants" and os.environ.get("PYTHONHASHSEED") is None:
        os.environ["PYTHONHASHSEED"] = "0"
        os.execv(sys.executable, [sys.executable] + sys.argv)
    if a.cmd == "digest-dump":
        a.props = a.props or []
        return cmd_digest_dump(a)
    rc = {"determinism": cmd_determinism, "mutants": cmd_mutants, "forkcheck": cmd_forkcheck, "realmp": cmd_realmp}[a.cmd](a)
    sys.exit(rc)


if __name__ == "__main__":
    main()
