"""Adversarial identifier strings for C18: any well-formed Unicode without whitespace."""

ATOMS = ["a", "ab", "A", "..", ".", "/", "../", "/etc/passwd", "..\\", "-rf", "--", ".hidden", "*", "?", "[a]", "{x,y}",
         "$HOME", "`id`", "$(id)", ";", "|", "&", ">", "<", "'", '"', "\\", "%00", "%2e%2e", "\x00", "\x7f", "é",
         "é", "‮", "😀", "\U0001F600", "İ", "K", "ﬁ", "doi:10.5063/F1Z60M87",
         "urn:uuid:8a0e8fe6", "tmp", "_delete", "x_delete", "objects", "refs/pids/x", "hashstore.yaml", "~", "#", "!",
         ":", "=", "+", ",", "@", "­", "​", "﻿"]


def _ok(s):
    return bool(s) and not any(ch.isspace() for ch in s) and s.strip() == s and \
        not any(0xD800 <= ord(ch) <= 0xDFFF for ch in s)


def gen_id(rng):
    r = rng.random()
    if r < 0.08:
        base = rng.choice(["a", "/", "..", "é", "x*"])
        s = (base * 4001)[: rng.choice([1000, 4000, 4096, 9000])]
    elif r < 0.5:
        s = "".join(rng.choice(ATOMS) for _ in range(rng.randint(1, 4)))
    else:
        s = "".join(rng.choice(ATOMS) for _ in range(rng.randint(1, 2))) + rng.choice(["", "1", "/x", ".c", "c"])
    s = "".join(ch for ch in s if not ch.isspace())
    return s if _ok(s) else "p" + str(rng.randrange(100))


def gen_ids(rng, n):
    """n distinct identifiers, biased to related pairs (prefix / suffix / case variant /
    concatenation ambiguity)."""
    out = []
    first = gen_id(rng)
    r0 = rng.random()
    if r0 < 0.15:
        # a family of long identifiers sharing a long common prefix
        first = (rng.choice(["urn:uuid:", "doi:10.1/", "a", "/", "é"]) * 300)[: rng.choice([64, 65, 128, 255, 256, 1000])]
    elif r0 < 0.3:
        first = rng.choice(["abc", "Doi:10.5/X", "urn:UUID:1", "é", "ǅ", "ß"])  # case-variant family
    out.append(first)
    while len(out) < n:
        r = rng.random()
        b = rng.choice(out)
        if r0 < 0.3 and r < 0.7:
            c = rng.choice([b.swapcase(), b.lower(), b.upper(), b + "x", b + b[-1:], b[:-1] + "Z"])
        elif r < 0.08:
            import unicodedata
            c = unicodedata.normalize("NFD", b)
            if c == b:
                c = unicodedata.normalize("NFC", b)
            if c == b:
                c = b + "e\u0301" if rng.random() < 0.5 else b + "\u00e9"
                if b + "\u00e9" not in out and rng.random() < 0.5:
                    out.append(b + "\u00e9")
                    c = b + "e\u0301"
        elif r < 0.2:
            c = b + rng.choice(["c", "/", ".", "b", "́"])
        elif r < 0.35 and len(b) > 1:
            c = b[:-1]
        elif r < 0.45:
            c = b.swapcase()
        elif r < 0.55 and len(b) > 1:
            c = b[1:]
        elif r < 0.6:
            c = b + b
        else:
            c = gen_id(rng)
        if _ok(c) and c not in out:
            out.append(c)
    return out
