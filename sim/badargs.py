"""Invalid-argument grammar (C17): for every parameter of every public method a set of bad
values with the documented error class; one bad parameter at a time and in pairs."""

from . import model as M

WS_IDS = ["", " ", "a b", "a\tb", "tail\n", " x", None]
UNSUP = ["sm3", "sha3256", "md4", "crc32", "sha-3256", "blake3"]
BAD_SIZES = [(0, "ValueError"), (-1, "ValueError"), ("12", "TypeError"), (1.5, "TypeError")]
BAD_DATA = [(None, "TypeError"), ("", "TypeError"), ("   ", "TypeError"), ({"bytes": "abc"}, "TypeError"),
            (7, "TypeError"), ([1, 2], "TypeError")]

UNKNOWN = "UNKNOWN_PID"  # placeholder resolved to the extra, never-bound pid of the alphabet


def _lit(v):
    if isinstance(v, dict):
        return v
    return {"lit": v}


def gen_bad(rng, npids, ncont, nformats):
    """One rejected call.  Returns a 'raw' op with the acceptable error classes."""
    unknown = {"pid": npids}  # index of the extra never-bound pid
    pid = {"pid": rng.randrange(npids)}
    data = {"data": rng.randrange(ncont), "kind": rng.choice(["str", "path"])}
    if rng.random() < 0.08:
        # store_object WITHOUT pid but with other (bad) arguments: the interface does not say whether they are
        # ignored or checked, so either outcome is accepted -- but a call that raises must change nothing
        c = rng.randrange(ncont)
        args = [_lit(None), {"data": c, "kind": "str"}, _lit(rng.choice([None, "sm3", "sha224"])),
                rng.choice([_lit(None), {"checksum": c}, _lit("ab cd"), _lit("")]),
                _lit(rng.choice([None, "sha256", "md4", " ", ""])), _lit(rng.choice([None, 0, -1, "12", 5]))]
        return {"op": "raw", "method": "store_object", "args": args, "expect": [], "conditional": True,
                "stores_content": c, "bad": []}
    method = rng.choice(["store_object", "store_object", "store_object", "tag_object", "delete_if_invalid_object",
                         "store_metadata", "retrieve_object", "retrieve_metadata", "delete_object",
                         "delete_metadata", "get_hex_digest"])
    bads = []  # list of (position, value, error class)
    if method == "store_object":
        c = rng.randrange(ncont)
        args = [pid, {"data": c, "kind": "str"}, None, None, None, None]
        if rng.random() < 0.4:
            # valid-looking other arguments (possibly mismatching: irrelevant for a rejected call)
            args[5] = _lit(rng.choice([1, 3, 10 ** 6]))
        if rng.random() < 0.3:
            args[2] = _lit(rng.choice(["sha224", "SHA-256", "blake2b"]))
        cands = [(0, _lit(rng.choice(WS_IDS[:-1])), "ValueError")]
        v, e = rng.choice(BAD_DATA)
        cands.append((1, _lit(v), e))
        cands.append((2, _lit(rng.choice(UNSUP)), "UnsupportedAlgorithm"))
        v, e = rng.choice(BAD_SIZES)
        cands.append((5, _lit(v), e))
        kind = rng.randrange(6)
        if kind == 0:
            # checksum without algorithm
            args[3] = {"checksum": c}
            bads.append((4, _lit(None), "ValueError"))
        elif kind == 1:
            args[4] = _lit("sha256")
            bads.append((3, _lit(rng.choice([None, "", "ab cd"])), "ValueError"))
        elif kind == 2:
            args[3] = {"checksum": c}
            bads.append((4, _lit(rng.choice(UNSUP)), "UnsupportedAlgorithm"))
        elif kind == 3:
            args[3] = {"checksum": c}
            bads.append((4, _lit(rng.choice(["", " "])), "ValueError"))
        else:
            bads.append(rng.choice(cands))
        if rng.random() < 0.3:
            extra = rng.choice(cands)
            if extra[0] not in [b[0] for b in bads]:
                bads.append(extra)
        if rng.random() < 0.15 and not any(b[0] == 0 for b in bads):
            # store without pid and unsupported data
            args[0] = _lit(None)
            v, e = rng.choice(BAD_DATA)
            bads = [(1, _lit(v), e)]
    elif method == "tag_object":
        args = [pid, {"cid": ["c", rng.randrange(ncont)]}]
        bads.append((rng.randrange(2), _lit(rng.choice(WS_IDS)), "ValueError"))
        if rng.random() < 0.3:
            bads = [(0, _lit(rng.choice(WS_IDS)), "ValueError"), (1, _lit(rng.choice(WS_IDS)), "ValueError")]
    elif method == "delete_if_invalid_object":
        c = rng.randrange(ncont)
        # the other (valid) arguments vary too: a rejected call must change nothing whatever they say
        args = [{"om": c}, rng.choice([{"checksum": c}, {"checksum": (c + 1) % ncont}, _lit("00ff")]),
                _lit(rng.choice(["sha256", "md5", "SHA-512"])), _lit(rng.choice([None, None, 1, 2, 7, 10 ** 6]))]
        cands = [(0, _lit(rng.choice([None, "not-metadata", 5])), "ValueError"),
                 (1, _lit(rng.choice([None, "", "a b"])), "ValueError"),
                 (2, _lit(rng.choice([None, "", " "])), "ValueError"),
                 (2, _lit(rng.choice(UNSUP)), "UnsupportedAlgorithm")]
        v, e = rng.choice(BAD_SIZES)
        cands.append((3, _lit(v), e))
        bads.append(rng.choice(cands))
        if rng.random() < 0.3:
            extra = rng.choice(cands)
            if extra[0] != bads[0][0]:
                bads.append(extra)
    elif method == "store_metadata":
        args = [pid, {"data": rng.randrange(3), "kind": "str", "prefix": "m"}, rng.choice([None, {"fmt": 0}])]
        cands = [(0, _lit(rng.choice(WS_IDS)), "ValueError"), (2, _lit(rng.choice([" ", "\t", "  \n"])), "ValueError")]
        v, e = rng.choice(BAD_DATA)
        cands.append((1, _lit(v), e))
        bads.append(rng.choice(cands))
        if rng.random() < 0.3:
            extra = rng.choice(cands)
            if extra[0] != bads[0][0]:
                bads.append(extra)
    elif method == "retrieve_object":
        args = [pid]
        bads.append(rng.choice([(0, _lit(rng.choice(WS_IDS)), "ValueError"), (0, unknown, "PidRefsDoesNotExist")]))
    elif method == "delete_object":
        args = [pid]
        bads.append(rng.choice([(0, _lit(rng.choice(WS_IDS)), "ValueError"), (0, unknown, "PidRefsDoesNotExist")]))
    elif method == "retrieve_metadata":
        args = [pid, rng.choice([None, {"fmt": 0}])]
        bads.append(rng.choice([(0, _lit(rng.choice(WS_IDS)), "ValueError"), (0, unknown, "ValueError"),
                                (1, _lit(rng.choice([" ", "\t "])), "ValueError")]))
    elif method == "delete_metadata":
        args = [pid, rng.choice([None, {"fmt": 0}])]
        bads.append(rng.choice([(0, _lit(rng.choice(WS_IDS)), "ValueError"),
                                (1, _lit(rng.choice([" ", "\t "])), "ValueError")]))
    else:  # get_hex_digest
        args = [pid, _lit("sha256")]
        bads.append(rng.choice([(0, _lit(rng.choice(WS_IDS)), "ValueError"), (0, unknown, "PidRefsDoesNotExist"),
                                (1, _lit(rng.choice([None, "", "sha 256"])), "ValueError"),
                                (1, _lit(rng.choice(UNSUP)), "UnsupportedAlgorithm")]))
        if rng.random() < 0.25:
            bads = [(0, _lit(rng.choice(WS_IDS)), "ValueError"), (1, _lit(rng.choice(UNSUP)), "UnsupportedAlgorithm")]
    expect = []
    for pos, val, err in bads:
        args[pos] = val
        if err not in expect:
            expect.append(err)
    args = [a if isinstance(a, dict) else _lit(a) for a in args]
    return {"op": "raw", "method": method, "args": args, "expect": expect,
            "bad": [[b[0], b[2]] for b in bads]}
