"""Configuration space of C14: (creation configuration, reopening configuration) pairs."""

STORE_ALGOS = ["MD5", "SHA-1", "SHA-256", "SHA-384", "SHA-512"]
UNSUPPORTED_STORE_ALGOS = ["sha256", "SHA256", "SHA-224", "SHA3-256", "md5", "SHA_256", "BLAKE2B", "SHA-1 ", "",
                           "sha-256", "Sha-512", "sha-1", "Md5", "sha-384", "SHA-256\n", " MD5", "SHA-2560", "SHA"]
NAMESPACES = ["https://ns.dataone.org/service/types/v2.0#", "urn:ns:sysmeta", "yes", "123", "a: b", "#x", "null", "~"]


def gen_create_cfg(rng):
    return {"store_depth": rng.randint(1, 5), "store_width": rng.randint(1, 4),
            "store_algorithm": rng.choice(STORE_ALGOS),
            "store_metadata_namespace": rng.choice(NAMESPACES)}


def gen_reopen(rng, cfg):
    """One reopening attempt relative to the creation configuration ``cfg``."""
    c = dict(cfg)
    r = rng.random()
    if r < 0.22:
        kind = "same"
        expect = "accept"
    elif r < 0.32:
        kind = "same-int-as-string"
        which = rng.choice(["store_depth", "store_width", "both"])
        def enc(v):
            v = int(v)
            return rng.choice([str(v), str(v), "0" + str(v), " " + str(v), str(v) + " ", "+" + str(v), "00%d" % v])
        if which in ("store_depth", "both"):
            c["store_depth"] = enc(c["store_depth"])
        if which in ("store_width", "both"):
            c["store_width"] = enc(c["store_width"])
        expect = "accept"
    elif r < 0.37:
        kind = "same-extra-key"
        c["extra"] = {"store_colour": "blue"}
        expect = "accept"
    elif r < 0.41 and int(cfg["store_depth"]) != int(cfg["store_width"]):
        # the same values under the wrong keys
        kind = "depth-width-swapped"
        c["store_depth"], c["store_width"] = cfg["store_width"], cfg["store_depth"]
        if rng.random() < 0.3:
            c["store_depth"], c["store_width"] = str(c["store_depth"]), str(c["store_width"])
        expect = "reject"
    elif r < 0.44:
        # numeric strings that are NOT the stored integer (only an over-tolerant conversion calls them equal)
        kind = "depth-width-non-integer-string"
        k = rng.choice(["store_depth", "store_width"])
        v = int(cfg[k])
        c[k] = rng.choice(["%d.9" % v, "%d.5" % v, "%d.0" % v, "%de0" % v, "%d_0" % v, "0x%d" % v])
        expect = "reject"
    elif r < 0.47:
        kind = "depth"
        c["store_depth"] = rng.choice([d for d in range(1, 6) if d != int(cfg["store_depth"])])
        if rng.random() < 0.3:
            c["store_depth"] = str(c["store_depth"])
        expect = "reject"
    elif r < 0.57:
        kind = "width"
        c["store_width"] = rng.choice([d for d in range(1, 5) if d != int(cfg["store_width"])])
        if rng.random() < 0.3:
            c["store_width"] = str(c["store_width"])
        expect = "reject"
    elif r < 0.67:
        kind = "algorithm"
        c["store_algorithm"] = rng.choice([a for a in STORE_ALGOS if a != cfg["store_algorithm"]])
        expect = "reject"
    elif r < 0.75:
        kind = "algorithm-unsupported-or-spelling"
        c["store_algorithm"] = rng.choice(UNSUPPORTED_STORE_ALGOS + [cfg["store_algorithm"].lower(),
                                                                     cfg["store_algorithm"].replace("-", "")])
        if c["store_algorithm"] == cfg["store_algorithm"]:
            c["store_algorithm"] = "sha256"
        expect = "reject"
    elif r < 0.80:
        kind = "namespace"
        c["store_metadata_namespace"] = rng.choice([n for n in NAMESPACES if n != cfg["store_metadata_namespace"]])
        expect = "reject"
    elif r < 0.83:
        # a different string that a "tolerant" comparison would call the same
        kind = "namespace-near"
        ns = cfg["store_metadata_namespace"]
        c["store_metadata_namespace"] = rng.choice([ns + " ", " " + ns, ns + "\n", "\t" + ns, ns.upper() if ns.upper() != ns else ns + "/",
                                                    ns.rstrip("#/") if ns.rstrip("#/") != ns else ns + "#"])
        expect = "reject"
    elif r < 0.88:
        kind = "missing-key"
        del c[rng.choice(["store_depth", "store_width", "store_algorithm", "store_metadata_namespace"])]
        expect = "reject"
    elif r < 0.92:
        kind = "none-value"
        c[rng.choice(["store_depth", "store_width", "store_algorithm", "store_metadata_namespace"])] = None
        expect = "reject"
    elif r < 0.96:
        kind = "two-differences"
        c["store_width"] = rng.choice([d for d in range(1, 5) if d != int(cfg["store_width"])])
        c["store_algorithm"] = rng.choice([a for a in STORE_ALGOS if a != cfg["store_algorithm"]])
        expect = "reject"
    else:
        kind = "lost-yaml"
        expect = "reject"
        return {"cfg": c, "expect": expect, "kind": kind, "lose_yaml": True}
    return {"cfg": c, "expect": expect, "kind": kind}
