"""CONC engine: a sequential set-up history, then 2-4 tasks each running 1-2 calls under the
seeded scheduler.  Oracles: linearizability of the recorded history against the reference model
(C07 / C12), termination and nothing-left-locked (C08), and the same through the multiprocessing
code paths with fork-views of the store (C16)."""

import hashlib
import traceback

from . import seam
from . import sched as S
from . import model as M
from . import world as W
from .engines import RunResult, Violation, _jsonable, _expsig, _outsig

INPROGRESS = "StoreObjectForPidAlreadyInProgress"
OBJECT_OPS = ("store", "tag", "delete", "div")
META_OPS = ("smeta", "rmeta", "dmeta")


class Call(object):
    __slots__ = ("task", "idx", "op", "inv", "ret", "out", "extra", "seq0", "seq1")

    def __init__(self, task, idx, op):
        self.task = task
        self.idx = idx
        self.op = op
        self.inv = None
        self.ret = None
        self.out = None
        self.extra = None
        self.seq0 = None
        self.seq1 = None


def _owns_pid(op):
    return op.get("op") in ("store", "delete") and op.get("pid") is not None


def acceptable(call, exp, calls, ignore_digests=False):
    """Outcome of one call against the model's expectation for its position in a candidate
    sequential order, plus the concurrency-only allowances the properties name."""
    out = call.out
    if exp.matches(out):
        return True
    if ignore_digests and out[0] == "ok" and exp.has_ok and isinstance(out[1], dict) and isinstance(exp.ok, dict):
        a = dict(out[1], digests=None)
        b = dict(exp.ok, digests=None)
        if a == b:
            return True
    op = call.op
    if out[0] == "exc" and op["op"] == "rmeta" and out[1] == "FileNotFoundError" and "ValueError" in exp.excs:
        return True  # a racing reader's not-found error
    return False


def split_delete_all(calls, nformats):
    """Relaxed history used only to *identify* one known finding: every successful delete-all
    (delete_metadata(pid) / the metadata part of delete_object(pid)) is replaced by independent
    per-document deletes that may be ordered anywhere inside the original call's interval."""
    out = []
    for c in calls:
        op = c.op
        if c.out == ("ok", "none") and ((op["op"] == "dmeta" and op.get("fmt") is None) or op["op"] == "delete"):
            k = 0
            if op["op"] == "delete":
                a = Call((c.task, "split", k), 0, {"op": "delete", "pid": op["pid"], "nometa": True})
                a.inv, a.ret, a.out = c.inv, c.ret, c.out
                out.append(a)
                k += 1
            for f in range(nformats):
                a = Call((c.task, "split", c.idx, k), 0, {"op": "dmeta", "pid": op["pid"], "fmt": f})
                a.inv, a.ret, a.out = c.inv, c.ret, ("ok", "none")
                out.append(a)
                k += 1
        else:
            out.append(c)
    return out


def linearize(model0, calls, final_alpha, allow_inprogress=True, ignore_digests=False, wild=(), final_check=None):
    """Search for a sequential order (respecting per-task order and real-time precedence) whose
    model execution yields every observed outcome and the observed final state.  Returns
    (order, None) or (None, reason)."""
    n = len(calls)
    # real-time precedence: a before b if a returned before b was invoked
    before = [[False] * n for _ in range(n)]
    for i, a in enumerate(calls):
        for j, b in enumerate(calls):
            if i != j and a.ret is not None and b.inv is not None and a.ret < b.inv:
                before[i][j] = True
            if i != j and a.task == b.task and a.idx < b.idx:
                before[i][j] = True
    # in-progress rejections: effect-free, allowed only when overlapping with an owner of the pid
    noop = set()
    for i, c in enumerate(calls):
        if c.out == ("exc", INPROGRESS):
            ok = False
            if allow_inprogress and c.op["op"] == "store" and c.op.get("pid") is not None:
                for j, d in enumerate(calls):
                    if j != i and _owns_pid(d.op) and d.op.get("pid") == c.op.get("pid") and \
                            not before[i][j] and not before[j][i]:
                        ok = True
            if not ok:
                return None, {"reason": "in-progress rejection without an overlapping owner of the pid",
                              "call": c.op}
            noop.add(i)
    best = {"depth": -1, "why": None}
    state_fail = {}

    def rec(done, mdl, order):
        if len(order) == n:
            diffs = final_check(mdl) if final_check is not None else W.compare_alpha(final_alpha, mdl)
            if not diffs:
                return list(order)
            if best["depth"] < n:
                best["depth"] = n
                best["why"] = {"reason": "final state differs from the state of this order",
                               "order": [(calls[k].task, calls[k].idx) for k in order], "diffs": diffs[:5]}
            state_fail[tuple(order)] = diffs
            return None
        for i in range(n):
            if i in done:
                continue
            if any(before[j][i] and j not in done for j in range(n)):
                continue
            c = calls[i]
            m2 = mdl.clone()
            if i in wild:
                # a call whose outcome and effect are not judged here (it met an injected fault, or shares the
                # identifier of one that did): it may have had its whole effect or none
                for eff in (True, False):
                    m3 = mdl.clone()
                    if eff:
                        m3.apply(c.op)
                    done.add(i)
                    order.append(i)
                    r = rec(done, m3, order)
                    if r is not None:
                        return r
                    order.pop()
                    done.discard(i)
                continue
            if i in noop:
                okc = True
            else:
                exp = m2.apply(c.op)
                okc = acceptable(c, exp, calls, ignore_digests)
                if not okc and len(order) >= best["depth"]:
                    best["depth"] = len(order)
                    best["why"] = {"reason": "outcome impossible at this position",
                                   "prefix": [(calls[k].task, calls[k].idx) for k in order],
                                   "call": c.op, "got": [c.out[0], _jsonable(c.out[1])],
                                   "model_expected": exp.describe()}
            if okc:
                done.add(i)
                order.append(i)
                r = rec(done, m2, order)
                if r is not None:
                    return r
                order.pop()
                done.discard(i)
        return None

    r = rec(set(), model0, [])
    if r is not None:
        return r, None
    return None, best["why"]


def interleaving_signature(log):
    """Partial-order signature: per path touched by >= 2 tasks, the sequence of (task, kind)."""
    per = {}
    for e in log:
        if e.rel is None:
            continue
        per.setdefault(e.rel, []).append((e.task, e.kind))
    shared = dict((k, v) for k, v in per.items() if len(set(t for t, _ in v)) > 1)
    if not shared:
        return None, False
    h = hashlib.sha1(repr(sorted(shared.items())).encode()).hexdigest()[:16]
    return h, True


def classify_conc(calls):
    kinds = set(c.op["op"] for c in calls)
    props = set()
    if kinds & set(OBJECT_OPS) and not (kinds & set(META_OPS)):
        props.add("C07")
    if kinds & set(META_OPS):
        props.add("C12")
    if not props:
        props.add("C07")
    return props


def symptom_props(calls, why, family):
    """Sequentially-stated properties that a non-linearizable history violates as well, judged by the
    symptom: a referenced object missing (C04), a bound pid bound again (C03), reference files that
    no order explains (C05), documents of different pids interfering (C11)."""
    extra = set()
    why = why or {}
    diffs = why.get("diffs") or []
    classes = set(d[0] for d in diffs)
    if "obj-missing-referenced" in classes:
        extra.add("C04")
    if any(c.startswith("pidref") or c.startswith("cidref") or c.startswith("residue") for c in classes):
        extra.add("C05")
    if any(c.startswith("meta") for c in classes) and family == "metax":
        extra.add("C11")
    call = why.get("call")
    if call and call.get("op") in ("store", "tag") and why.get("got", [None])[0] == "ok" and \
            set((why.get("model_expected") or {}).get("excs", [])) & M.ALREADY:
        extra.add("C03")
    if call and call.get("op") in ("rmeta", "smeta", "dmeta") and family == "metax":
        extra.add("C11")
    # two successful binds of one pid with no successful delete of it
    binds = {}
    deleted = set()
    for c in calls:
        if c.out and c.out[0] == "ok":
            if c.op["op"] in ("store", "tag") and c.op.get("pid") is not None:
                binds[c.op["pid"]] = binds.get(c.op["pid"], 0) + 1
            if c.op["op"] == "delete":
                deleted.add(c.op["pid"])
    if any(n > 1 and p not in deleted for p, n in binds.items()):
        extra.add("C03")
    return extra


def fhs_file():
    from hashstore import filehashstore
    return filehashstore.__file__


class ConcEngine(object):
    def __init__(self, prog, keep=False):
        self.prog = prog
        self.keep = keep
        self.res = RunResult()
        self.world = None

    def run(self):
        res = self.res
        try:
            self.world = W.World(self.prog)
            self._run()
        except Exception:
            res.harness_error = traceback.format_exc()
        finally:
            if self.world is not None:
                res.events = self.world.run.seq
                kn = self.world.knobs
                for k in ("relstore", "two_instances", "short_writes"):
                    if kn.get(k):
                        res.flags.add("knob:" + k)
                if kn.get("pid_skin"):
                    res.flags.add("knob:pid-skin-" + kn["pid_skin"][0])
                for k in ("short-write", "exdev"):
                    n = self.world.run.counts.get(k)
                    if n:
                        res.stats.setdefault("faults", {})
                        res.stats["faults"][k] = res.stats["faults"].get(k, 0) + n
                res.digest = self.world.run.digest()
                if not self.keep:
                    self.world.cleanup()
        return res

    def _run(self):
        w, res, prog = self.world, self.res, self.prog
        knobs = prog.get("knobs", {})
        mp = w.mp
        base_props = set(["C16"]) if mp else set()
        liveness_only = bool(prog.get("liveness_only"))
        if liveness_only:
            # start state produced by INTERRUPTED calls (orphan references, markers, tmp files ...):
            # the model cannot describe it, so only termination / nothing-left-locked are judged
            with seam.activate(w.run, 0):
                w.open_store()
                mdl = w.model()
                r = w.run
                for op in prog.get("setup", []):
                    plan = op.get("int")
                    if plan:
                        r.crash_at, r.crash_count, r.crashed = plan["index"], 0, False
                        r.crash_kinds = seam.MUTATING
                        r.crash_snapshot = None
                    try:
                        w.exec_op(op)
                    except seam.SimCrash:
                        pass
                    r.crash_at = None
                    if r.crashed:
                        r.dead_tasks.clear()
                        r.crashed = False
                        r.all_dead = False
                        res.flags.add("setup-crashed")
                        w.open_store()
        with seam.activate(w.run, 0):
            if not liveness_only:
                w.open_store()
                mdl = w.model()
            # sequential set-up (must agree with the model, else the scenario is discarded)
            for i, op in enumerate([] if liveness_only else prog.get("setup", [])):
                exp = mdl.apply(op)
                out, extra = w.exec_op(op)
                if not exp.matches(out):
                    res.violations.append(Violation({"SETUP"}, "setup", "setup:%s" % op["op"],
                                                    {"op": op, "got": [out[0], _jsonable(out[1])],
                                                     "expected": exp.describe()}, i))
                    return
            a0 = w.alpha()
            if not liveness_only and W.compare_alpha(a0, mdl):
                res.violations.append(Violation({"SETUP"}, "setup", "setup:alpha", {"diffs": W.compare_alpha(a0, mdl)[:4]}))
                return
        w.run.recording = True
        setup_events = len(w.run.log)
        sch = S.Sched(w.run, policy=knobs.get("policy", "random"), seed=prog.get("seed", 0),
                      preempt=prog.get("preempt"), wake=knobs.get("wake", "fifo"),
                      spurious=knobs.get("spurious", 0.0), step_cap=knobs.get("step_cap", S.STEP_CAP_DEFAULT),
                      pct_depth=knobs.get("pct_depth", 2), est_len=knobs.get("est_len", 200),
                      bound=knobs.get("bound", 2),
                      line_trace=(fhs_file() if knobs.get("line_trace") else None))
        calls = []
        clock = [0]

        def make_body(ti, ops, store):
            def body():
                if mp and w.run.at_fork_child:
                    # this task is a process forked NOW (tasks may start late): the child's fork handlers run
                    for h in list(w.run.at_fork_child):
                        try:
                            h()
                        except Exception:  # CPython reports and ignores exceptions of fork handlers
                            res.flags.add("at-fork-handler-raised")
                for k, op in enumerate(ops):
                    c = Call(ti, k, op)
                    calls.append(c)
                    clock[0] += 1
                    c.inv = clock[0]
                    sch.yield_point()
                    c.seq0 = w.run.seq
                    c.out, c.extra = w.exec_op(op, store=store)
                    c.seq1 = w.run.seq
                    clock[0] += 1
                    c.ret = clock[0]
            return body

        ob = None
        if prog.get("atom"):
            from .single import AtomObserver
            cids = [mdl.cid_of(c) for c in w.contents] + [mdl.resolve_cid(["x", k]) for k in range(3)]
            cids += [c.upper() for c in cids]  # tag_object takes the cid as the caller spells it
            ob = AtomObserver(w, w.mcontents, cids, mdl.algo)
            w.run.observers.append(ob)
        fp = None
        if prog.get("fault"):
            # one injected I/O error somewhere in the concurrent phase (C08: calls that fail part-way)
            from .single import ERRNOS
            f = prog["fault"]
            fp = seam.FaultPlan(f["index"], ERRNOS[f.get("errno", "EIO")], f.get("persistent") or False)
            w.run.fault = fp
        stagger = prog.get("stagger") or []
        for ti, ops in enumerate(prog["tasks"]):
            store = w.fork_view() if mp else w.store
            sch.spawn(make_body(ti + 1, ops, store), start_after=stagger[ti] if ti < len(stagger) else 0)
        sch.run_all()
        w.run.sched = None
        if fp is not None:
            fp.clear()
            w.run.fault = None
            if fp.fired is not None:
                res.stats["faults"] = {"%s:%s" % (fp.fired.kind, prog["fault"].get("errno", "EIO")): fp.fired_n}
                res.flags.add("fault-fired")
        if ob is not None:
            w.run.observers.remove(ob)
            res.stats["probes"] = {"observation_points": ob.points}
            res.stats["changed_points"] = sorted(ob.changed_points)
            if ob.violation is not None:
                res.violations.append(Violation({"C09"}, "atomicity", "atom:%s:conc" % ob.violation["kind"],
                                                {"violation": ob.violation, "tasks": prog["tasks"],
                                                 "setup": prog.get("setup", [])}))
                return
        res.stats["decisions"] = sch.decision
        res.stats["switches"] = sch.switches
        res.stats["preempt"] = dict((str(k), v) for k, v in sch.preempt_out.items())
        res.flags.add("policy:" + knobs.get("policy", "random"))
        if sch.race_hits:
            res.flags.add("race-postponed-step-met-conflict")
        if sch.line_trace:
            res.flags.add("knob:line-trace")
            res.stats.setdefault("probes", {})
            res.stats["probes"]["line_level_preemption_points"] = sch.line_points
        res.flags.add("tasks:%d" % len(prog["tasks"]))
        for t in sch.tasks:
            if t.exc is not None:
                raise RuntimeError("task %d harness exception: %r" % (t.tid, t.exc))
        sig, shared = interleaving_signature(w.run.log[setup_events:])
        res.stats["interleaving"] = sig
        res.stats["shared"] = shared
        if prog.get("scout"):
            # fault sites (index among the fault-kind events of the concurrent phase) on paths that more than
            # one task touched: where a failing call can hurt somebody else
            tasks_of = {}
            for e in w.run.log[setup_events:]:
                if e.rel is not None:
                    tasks_of.setdefault(e.rel, set()).add(e.task)
            sites, k = [], 0
            for e in w.run.log[setup_events:]:
                if e.kind in seam.FAULT_KINDS_CORE:
                    if e.rel is not None and len(tasks_of.get(e.rel, ())) > 1:
                        sites.append(k)
                    k += 1
            res.stats["shared_fault_sites"] = sites
            return
        # a concurrency violation in multiprocessing mode is a C16 violation and a violation of the
        # concurrency property itself (C07 / C12 do not restrict the synchronisation mode)
        props = (classify_conc(calls) if calls else set(["C07"])) | (set(["C16"]) if mp else set())
        scenario = {"tasks": prog["tasks"], "setup": prog.get("setup", [])}
        # C08 (a): termination
        if sch.failure is not None:
            res.violations.append(Violation(
                self.c08(), "liveness", "liveness:%s" % sch.failure[0],
                {"failure": sch.failure[0], "blocked": _jsonable(sch.failure[1]), "scenario": scenario,
                 "unfinished": [c.op for c in calls if c.ret is None]}))
            return
        for c in calls:
            res.flags.add("op:" + c.op["op"])
            if c.out[0] == "exc":
                res.flags.add("exc:" + c.out[1])
                if c.out[1] == "Deadlock":
                    res.violations.append(Violation(self.c08(), "liveness", "liveness:self-deadlock",
                                                    {"call": c.op, "extra": _jsonable(c.extra)}))
                    return
        if fp is not None and fp.fired is not None and prog.get("bystander") and not res.violations:
            with seam.activate(w.run, 0):
                self.bystanders(mdl, calls, fp, scenario)
        if fp is not None or liveness_only:
            # after an injected fault / from an interrupted start state only the liveness oracles apply (what a failed call may leave
            # behind is C13's subject, decided one call at a time by the FAULT engine)
            with seam.activate(w.run, 0):
                v = self.followups(None, scenario)
                if v is not None:
                    v.props = self.c08()
                    res.violations.append(v)
            return
        with seam.activate(w.run, 0):
            fin = w.alpha()
            order, why = linearize(mdl, calls, fin)
            if order is None:
                tag = "nonlin"
                o3, _ = linearize(mdl, calls, fin, ignore_digests=True)
                if o3 is not None:
                    # everything but a reported digest map is explained by a sequential order
                    tag = "nonlin-digests-only"
                    props = set(["C02"]) | (set(["C16"]) if mp else set())
                elif any(c.op["op"] in META_OPS for c in calls):
                    o2, _ = linearize(mdl, split_delete_all(calls, len(w.formats)), fin)
                    if o2 is not None:
                        # explained entirely by delete-all acting document by document
                        tag = "nonlin-deleteall-split"
                if tag == "nonlin":
                    props = props | symptom_props(calls, why, prog.get("family"))
                res.violations.append(Violation(
                    props, "linearizability", "%s:%s" % (tag, _nonlin_sig(calls, why)),
                    {"why": _jsonable(why), "scenario": scenario,
                     "history": [{"task": c.task, "op": c.op, "inv": c.inv, "ret": c.ret,
                                  "out": [c.out[0], _jsonable(c.out[1])]} for c in calls]}))
                return
            # the witness order gives the model state at quiescence
            m2 = mdl.clone()
            for k in order:
                if calls[k].out != ("exc", INPROGRESS):
                    m2.apply(calls[k].op)
            res.states.add(hashlib.sha1(m2.state_key().encode()).hexdigest()[:12])
            # every store_object that returned normally leaves its pid retrievable (C07)
            for pi in range(len(w.pids)):
                pexp = m2.op_retrieve({"pid": pi})
                out, _ = w.exec_op({"op": "retrieve", "pid": pi})
                if not pexp.matches(out):
                    if pexp.has_ok:
                        props = props | {"C04"}
                    res.violations.append(Violation(props, "probe", "conc-probe:retrieve:%s->%s" % (_expsig(pexp), _outsig(out)),
                                                    {"pid": w.pids[pi], "expected": pexp.describe(),
                                                     "got": [out[0], _jsonable(out[1])], "scenario": scenario}))
                    return
            # C08 (b), (c): nothing left locked, follow-up calls complete
            v = self.followups(m2, scenario)
            if v is not None:
                v.props = self.c08()
                res.violations.append(v)

    def bystanders(self, mdl, calls, fp, scenario):
        """C13 under concurrency: "in all cases every other pid's data is untouched".  The call that met the
        injected error -- and every call on the same pid, or validating the same content -- is neither judged
        nor trusted (each may have had its whole effect or none); all OTHER calls must still have outcomes,
        and all other pids and documents must still read back, as some sequential order explains."""
        w, res = self.world, self.res
        fired = fp.fired
        f = None
        for c in calls:
            if c.task == fired.task and getattr(c, "seq0", None) is not None and \
                    c.seq0 < fired.seq <= (c.seq1 if getattr(c, "seq1", None) is not None else 10 ** 12):
                f = c
        if f is None or f.op.get("pid") is None:
            return
        # every call that met an injected error (a persistent fault hits every call that touches the path)
        hit = [c for c in calls if getattr(c, "seq0", None) is not None and any(
            t == c.task and c.seq0 < q <= (c.seq1 if c.seq1 is not None else 10 ** 12) for t, q in fp.hits)]
        if any(c.op.get("pid") is None for c in hit):
            return
        fpids = set(c.op["pid"] for c in hit)
        fconts = set(c.op.get("c") for c in hit if c.op["op"] == "store")
        wild = set()
        for i, c in enumerate(calls):
            if c in hit or c.op.get("pid") in fpids:
                wild.add(i)
            elif c.op["op"] == "div" and (not fconts or c.op.get("c") in fconts or len(hit) > len(fconts)):
                wild.add(i)
            elif c.out is None or c.ret is None:
                wild.add(i)
        obs = {}
        for pi in range(len(w.pids)):
            if pi not in fpids:
                obs[("o", pi)] = w.exec_op({"op": "retrieve", "pid": pi})[0]
                for fi in [None] + list(range(len(w.formats))):
                    obs[("m", pi, fi)] = w.exec_op({"op": "rmeta", "pid": pi, "fmt": fi})[0]

        def final_check(m):
            diffs = []
            for k, out in obs.items():
                exp = m.op_retrieve({"pid": k[1]}) if k[0] == "o" else m.op_rmeta({"pid": k[1], "fmt": k[2]})
                if not exp.matches(out):
                    diffs.append(["bystander", [k[0], w.pids[k[1]]] + list(k[2:]), exp.describe(), [out[0], _jsonable(out[1])]])
            return diffs

        order, why = linearize(mdl, calls, None, wild=wild, final_check=final_check)
        res.flags.add("bystander-oracle")
        if order is None:
            res.violations.append(Violation(
                {"C13"} | (set(["C16"]) if w.mp else set()), "bystander", "conc-fault:bystander:%s" % _nonlin_sig(calls, why),
                {"why": _jsonable(why), "faulted_call": f.op, "fault_site": {"kind": fired.kind, "cls": fired.cls},
                 "scenario": scenario,
                 "history": [{"task": c.task, "op": c.op, "inv": c.inv, "ret": c.ret,
                              "out": None if c.out is None else [c.out[0], _jsonable(c.out[1])]} for c in calls]}))

    def c08(self):
        # termination / nothing-left-locked belongs to C08 in threading mode and to C16 when the
        # run went through the multiprocessing code paths
        return set(["C16"]) if self.world.mp else set(["C08"])

    def followups(self, mdl, scenario):
        w = self.world
        st = w.store
        leaked = []
        for name in sorted(vars(st)):
            if "locked" in name:
                val = getattr(st, name)
                try:
                    items = list(val)
                except TypeError:
                    continue
                if items:
                    leaked.append((name, items))
        if leaked:
            return Violation({"C08"}, "locked", "locked:list-not-empty", {"leaked": _jsonable(leaked), "scenario": scenario})
        for name in sorted(vars(st)):
            val = getattr(st, name)
            if isinstance(val, S.SimLock) and val.locked():
                return Violation({"C08"}, "locked", "locked:lock-held", {"lock": name, "scenario": scenario})
        if self.prog.get("knobs", {}).get("followups") == "cheap":
            return None  # (the follow-up calls run in full in the C08 / C16 checks)
        # follow-up calls on every identifier involved (single task: blocking = Deadlock)
        used_pids = set()
        used_docs = set()
        for ops in [self.prog.get("setup", [])] + list(self.prog["tasks"]):
            for op in ops:
                if op.get("pid") is not None:
                    used_pids.add(op["pid"])
                    if op["op"] in ("smeta", "dmeta", "rmeta"):
                        used_docs.add((op["pid"], op.get("fmt")))
        fu = []
        for pi in sorted(used_pids):
            fu.append({"op": "delete", "pid": pi})
            fu.append({"op": "store", "pid": pi, "c": 0, "kind": "str"})
            fu.append({"op": "retrieve", "pid": pi})
        for pi, f in sorted(used_docs, key=repr):
            fu.append({"op": "smeta", "pid": pi, "fmt": f, "m": 0})
            fu.append({"op": "rmeta", "pid": pi, "fmt": f})
        for op in fu:
            exp = mdl.apply(op) if mdl is not None else None
            out, extra = w.exec_op(op)
            if out == ("exc", "Deadlock") or out == ("exc", INPROGRESS):
                return Violation({"C08"}, "locked", "locked:followup-blocked:%s" % op["op"],
                                 {"followup": op, "got": list(out), "scenario": scenario})
            if op["op"] == "delete" or exp is None:
                continue  # may report the pid as unknown
            if not exp.matches(out):
                return Violation({"C08"}, "followup", "followup:%s:%s->%s" % (op["op"], _expsig(exp), _outsig(out)),
                                 {"followup": op, "expected": exp.describe(), "got": [out[0], _jsonable(out[1])],
                                  "extra": _jsonable(extra), "scenario": scenario})
        return None


def _nonlin_sig(calls, why):
    kinds = sorted(set(c.op["op"] for c in calls))
    outs = sorted(set(_outsig(c.out) for c in calls))
    r = (why or {}).get("reason", "?").split(" ")[0]
    return "%s:%s:%s" % ("+".join(kinds), "+".join(outs), r)


def run_conc(prog, **kw):
    return ConcEngine(prog, **kw).run()


class ConcCrashEngine(ConcEngine):
    """C10 extension: the process dies while several threads are mid-call.  At the chosen mutating
    seam event of the concurrent phase the store directory is snapshotted and every task dies; a new
    instance on the snapshot must satisfy the recovery oracle for every pid."""

    def _run(self):
        import os
        import shutil
        from . import single
        w, res, prog = self.world, self.res, self.prog
        knobs = prog.get("knobs", {})
        box = W.new_sandbox("csnap")
        self.box = box
        with seam.passthrough():
            shutil.rmtree(box)
            os.makedirs(os.path.join(box, "input"))
        try:
            with seam.activate(w.run, 0):
                w.open_store()
                mdl = w.model()
                sv = single.run_setup(w, mdl, prog.get("setup", []))
                if sv is not None:
                    return
                pre = mdl.clone()
                pre_obs = single.observe_all(w)
            r = w.run
            r.crash_at = prog["crash"]["index"]
            r.crash_kinds = seam.MUTATING
            r.kill_all = True
            r.crash_snapshot = os.path.join(box, "store")
            sch = S.Sched(r, policy=knobs.get("policy", "random"), seed=prog.get("seed", 0),
                          preempt=prog.get("preempt"), wake=knobs.get("wake", "fifo"),
                          est_len=knobs.get("est_len", 200), pct_depth=knobs.get("pct_depth", 2),
                          bound=knobs.get("bound", 2))

            def make_body(ops):
                def body():
                    for op in ops:
                        sch.yield_point()
                        w.exec_op(op)
                return body
            for ops in prog["tasks"]:
                sch.spawn(make_body(ops))
            sch.run_all()
            r.sched = None
            r.crash_at = None
            res.stats["preempt"] = dict((str(k), v) for k, v in sch.preempt_out.items())
            res.flags.add("tasks:%d" % len(prog["tasks"]))
            if not r.crashed:
                res.flags.add("nofire")
                res.stats["nofire"] = True
                return
            ev = r.crash_event
            res.stats["site"] = {"kind": ev.kind, "cls": ev.cls, "task": ev.task}
            res.stats["faults"] = {"crash:%s" % ev.kind: 1}
            res.stats["interleaving"], res.stats["shared"] = interleaving_signature(r.log)
            used = set()
            legit = {}
            stored_cids = set()
            for ops in prog["tasks"]:
                for op in ops:
                    if op.get("pid") is not None:
                        used.add(op["pid"])
                        if op["op"] == "store":
                            legit.setdefault(op["pid"], set()).add(w.contents[op["c"]])
                        if op["op"] == "tag":
                            b = pre.cid_bytes.get(pre.resolve_cid(op["cid"]))
                            if b is not None:
                                legit.setdefault(op["pid"], set()).add(b)
                    if op["op"] == "store":
                        stored_cids.add(pre.cid_of(w.contents[op["c"]]))
            for pi, pid in enumerate(w.pids):
                if pid in pre.pid2cid and pre.pid2cid[pid] in pre.cid_bytes:
                    legit.setdefault(pi, set()).add(pre.cid_bytes[pre.pid2cid[pid]])
            detail = {"tasks": prog["tasks"], "setup": prog.get("setup", []), "crash_site": res.stats["site"]}
            w2 = W.World(prog, sandbox=box)
            with seam.activate(w2.run, 0):
                try:
                    w2.open_store()
                except Exception as e:
                    res.violations.append(Violation({"C10"}, "crash", "ccrash:reopen-failed:%s" % type(e).__name__, detail))
                    return
                a = w2.alpha()
                bad = W.object_hash_ok(a, pre.algo)
                if bad:
                    res.violations.append(Violation({"C10", "C09"}, "crash", "ccrash:partial-object", dict(detail, cids=bad)))
                    return
                base = pre.clone()
                base.objs |= (set(a["objs"]) & stored_cids)
                post = single.observe_all(w2)
                for key, val in pre_obs.items():
                    if key[1] in used:
                        continue
                    if not single.expect_obs(base, key).matches(post.get(key)):
                        res.violations.append(Violation({"C10"}, "crash", "ccrash:bystander-changed",
                                                        dict(detail, key=_jsonable(key), before=_jsonable(val),
                                                             after=_jsonable(post.get(key)))))
                        return
                # (a pid that cannot be hashed is never bound: nothing to recover, every call on it is refused)
                used = set(pi for pi in used if M.encodable(w.pids[pi]))
                for pi in sorted(used):
                    o = post[("obj", pi)]
                    if o[0] == "ok":
                        if o[1] not in legit.get(pi, set()):
                            res.violations.append(Violation({"C10"}, "crash", "ccrash:wrong-bytes",
                                                            dict(detail, pid=w.pids[pi], got=_jsonable(o[1]))))
                            return
                    elif o[1] not in single.NOTFOUND_OK:
                        res.violations.append(Violation({"C10"}, "crash", "ccrash:retrieve-%s" % o[1],
                                                        dict(detail, pid=w.pids[pi])))
                        return
                ci = 1 if len(w2.contents) > 1 else 0
                for pi in sorted(used):
                    o, e = w2.exec_op({"op": "delete", "pid": pi})
                    if not (o[0] == "ok" or o == ("exc", "PidRefsDoesNotExist")):
                        res.violations.append(Violation({"C10"}, "crash", "ccrash:recovery-delete:%s" % _outsig(o),
                                                        dict(detail, pid=w.pids[pi], msg=e.get("msg"))))
                        return
                    o, e = w2.exec_op({"op": "store", "pid": pi, "c": ci, "kind": "str"})
                    if o[0] != "ok":
                        res.violations.append(Violation({"C10"}, "crash", "ccrash:recovery-store:%s" % _outsig(o),
                                                        dict(detail, pid=w.pids[pi], msg=e.get("msg"))))
                        return
                    o, e = w2.exec_op({"op": "retrieve", "pid": pi})
                    if o != ("ok", w2.contents[ci]):
                        res.violations.append(Violation({"C10"}, "crash", "ccrash:recovered-not-retrievable",
                                                        dict(detail, pid=w.pids[pi], got=[o[0], _jsonable(o[1])])))
                        return
        finally:
            with seam.passthrough():
                shutil.rmtree(box, ignore_errors=True)


def run_conc_crash(prog, **kw):
    return ConcCrashEngine(prog, **kw).run()
