"""Engines: SEQ (sequential history vs reference model) and the shared result types.
CONC / ATOM / CRASH / FAULT live in conc.py / crash.py / fault.py and reuse these."""

import hashlib
import json
import os
import shutil
import traceback

from . import seam
from . import model as M
from . import world as W


class Violation(object):
    def __init__(self, props, kind, sig, detail, step=None):
        self.props = set(props)
        self.kind = kind
        self.sig = sig  # violation class used by the shrinker ("same failure")
        self.detail = detail
        self.step = step

    def to_json(self):
        return {"props": sorted(self.props), "kind": self.kind, "sig": self.sig,
                "detail": _jsonable(self.detail), "step": self.step}


def _jsonable(x):
    if isinstance(x, (bytes, bytearray)):
        return M._short(bytes(x))
    if isinstance(x, dict):
        return dict((str(k), _jsonable(v)) for k, v in x.items())
    if isinstance(x, (list, tuple, set, frozenset)):
        return [_jsonable(v) for v in (sorted(x, key=repr) if isinstance(x, (set, frozenset)) else x)]
    if isinstance(x, (str, int, float)) or x is None:
        return x
    return repr(x)


class RunResult(object):
    def __init__(self):
        self.violations = []
        self.harness_error = None
        self.stats = {}
        self.trace = []  # per step record (JSON-able)
        self.digest = None
        self.events = 0
        self.states = set()
        self.flags = set()

    @property
    def ok(self):
        return not self.violations and self.harness_error is None

    def for_prop(self, prop):
        return [v for v in self.violations if prop in v.props]


# -- classification of disagreements ---------------------------------------------------------

def _is_validation_op(op):
    return op.get("op") == "div" or (op.get("op") == "store" and (op.get("ck") or op.get("size")))


def classify_outcome(op, exp, out, mp=False):
    """Properties to which a wrong call outcome belongs."""
    props = set()
    name = op["op"]
    kind, val = out
    if op.get("kind") == "missing":
        props.add("C17")
        if mp:
            props.add("C16")
        return props
    if name == "store":
        if kind == "ok" and exp.has_ok and isinstance(val, dict) and isinstance(exp.ok, dict):
            if val.get("cid") != exp.ok["cid"] or val.get("size") != exp.ok["size"]:
                props.add("C01")
            if val.get("digests") != exp.ok["digests"]:
                props.add("C02")
            if val.get("pid") != exp.ok["pid"]:
                props.add("C05")
        elif kind == "ok":
            # should have been rejected
            if exp.excs & M.ALREADY:
                props.update(["C03"])
            if exp.excs & {"NonMatchingChecksum", "NonMatchingObjSize"}:
                props.update(["C06", "C19"])
            if not props:
                props.add("C17")
        else:
            stream_kind = op.get("kind") in ("file", "mem", "bytesio", "bufreader", "rwfile")
            if val in ("NonMatchingChecksum", "NonMatchingObjSize"):
                props.update(["C06", "C19"])
            elif val in M.ALREADY:
                props.add("C03")
            elif val == "UnsupportedAlgorithm":
                props.update(["C02", "C06"] if op.get("ckalgo") else ["C02"])
            elif exp.has_ok:
                # a store that must succeed raised something undocumented
                props.update(["C01"] if stream_kind else ["C01", "C05"])
            else:
                if stream_kind:
                    props.add("C01")
                elif exp.excs & M.ALREADY:
                    props.add("C03")
                elif exp.excs & {"NonMatchingChecksum", "NonMatchingObjSize"}:
                    props.update(["C06", "C19"])
                else:
                    props.add("C17")
    elif name == "tag":
        props.add("C03" if (exp.excs & M.ALREADY) else "C05")
        if not (exp.excs & M.ALREADY):
            props.add("C19")
    elif name == "delete":
        props.add("C05")
        if exp.excs:
            props.add("C17")
    elif name == "div":
        props.update(["C06", "C19"])
    elif name == "retrieve":
        props.update(["C01", "C04"] if exp.has_ok else ["C17", "C05"])
    elif name == "hexdigest":
        props.add("C02" if exp.has_ok else "C17")
    elif name in ("smeta", "rmeta", "dmeta"):
        props.add("C11")
    if mp:
        props.add("C16")
    return props


def classify_diff(op, exp, diff, mp=False):
    cls = diff[0]
    props = set()
    name = op.get("op") if op else None
    if cls == "obj-missing-referenced":
        props.update(["C04", "C01"])
    elif cls == "obj-missing":
        props.add("C05")
        if name == "div":
            props.add("C06")
    elif cls == "obj-extra":
        props.add("C05")
        if _is_validation_op(op or {}):
            props.add("C06")
    elif cls.startswith("pidref") or cls.startswith("cidref"):
        props.add("C05")
        if exp is not None and (exp.excs & M.ALREADY):
            props.add("C03")
        if name == "div" or (name == "store" and exp is not None and
                             exp.excs & {"NonMatchingChecksum", "NonMatchingObjSize"}):
            props.add("C06")
    elif cls.startswith("meta"):
        props.add("C11")
    elif cls.startswith("residue"):
        props.add("C05")
        if _is_validation_op(op or {}):
            props.add("C06")
    elif cls == "foreign":
        props.update(["C05", "C18"])
    if exp is not None and not exp.has_ok and not exp.weak and exp.excs and \
            not (exp.excs & M.ALREADY) and not (exp.excs & {"NonMatchingChecksum", "NonMatchingObjSize"}):
        props.add("C17")
    if mp:
        props.add("C16")
    return props


class SeqEngine(object):
    """Executes a generated history on the real store and on the model in lock-step."""

    def __init__(self, prog, probes=True, hooks=None, keep=False, monitor=False, prologue=None,
                 ro_snapshot=False, target=None):
        self.prog = prog
        self.probes = probes
        self.hooks = hooks or {}
        self.use_monitor = monitor
        self.monitor = None
        self.prologue = prologue
        self.ro_snapshot = ro_snapshot
        self.target = target
        self.keep = keep
        self.res = RunResult()
        self.world = None
        self.model = None
        self.repeats = 0

    def violation(self, props, kind, sig, detail, step):
        if any(v.sig == sig for v in self.res.violations):
            self.repeats += 1
            return
        self.res.violations.append(Violation(props, kind, sig, detail, step))

    def stop(self):
        """Stop at the first disagreement that belongs to the property being checked.  A
        disagreement that belongs to other properties only does not end the run: the model stays
        the specification, and what the defect leads to later (an object lost, a pid no longer
        retrievable) may well belong to this property."""
        vs = self.res.violations
        if not vs:
            return False
        if self.target is None:
            return True
        if any(self.target in v.props for v in vs):
            return True
        return len(vs) >= 6 or self.repeats >= 40

    def run(self):
        res = self.res
        cwd = None
        try:
            self.world = W.World(self.prog)
            if self.world.knobs.get("chdir") or self.world.knobs.get("relstore"):
                # identifiers that are relative paths of existing files (C18): run inside the sandbox
                cwd = os.getcwd()
                os.chdir(self.world.sandbox)
            self._run()
        except (seam.SimCrash, seam.SimAbort) as e:  # not expected in SEQ
            res.harness_error = "unexpected %r" % (e,)
        except Exception:
            res.harness_error = traceback.format_exc()
        finally:
            if cwd is not None:
                os.chdir(cwd)
            if self.world is not None:
                res.events = self.world.run.seq
                kn = self.world.knobs
                for k in ("relstore", "two_instances", "short_writes"):
                    if kn.get(k):
                        res.flags.add("knob:" + k)
                if kn.get("pid_skin"):
                    res.flags.add("knob:pid-skin-" + kn["pid_skin"][0])
                for k in ("short-write", "exdev"):
                    n = self.world.run.counts.get(k)
                    if n:
                        res.stats.setdefault("faults", {})
                        res.stats["faults"][k] = res.stats["faults"].get(k, 0) + n
                res.digest = self.world.run.digest()
                res.stats["seam_counts"] = dict(self.world.run.counts)
                res.stats["escapes"] = list(self.world.run.escapes)
                if not self.keep:
                    self.world.cleanup()
        return res

    def _run(self):
        w = self.world
        res = self.res
        mp = w.mp
        with seam.activate(None if w.knobs.get("real_mp") else w.run, 0):
            if self.prologue is not None:
                self.prologue(self)
                if res.violations:
                    return
            try:
                w.open_store()
            except Exception as e:
                # creating a store with a valid configuration must succeed
                self.violation({"C14"}, "config", "config:create-failed:%s" % type(e).__name__,
                               {"cfg": w.cfg, "error": str(e)[:300]}, -1)
                return
            mdl = self.model = w.model()
            if self.use_monitor:
                from . import hooks as H
                self.monitor = H.AccessMonitor(self)
                w.run.observers.append(self.monitor)
            self.check_state(None, None, -1)
            for i, op in enumerate(self.prog["ops"]):
                if self.stop():
                    break
                name = op["op"]
                if name in self.hooks:
                    self.hooks[name](self, i, op)
                    self.check_monitor(op, i)
                    continue
                if self.ro_snapshot and op.get("ro"):
                    from . import hooks as H
                    H.wrap_readonly(self, i, op)
                    continue
                if name == "scribble":
                    # the CALLER rewrites, in place, a file it stored from earlier: nothing in the store may
                    # change (an object must not share storage with what the caller handed over)
                    w.scribble(op["c"], True)
                    try:
                        res.flags.add("caller-rewrote-its-file")
                        self.check_state(None, None, i)
                    finally:
                        w.scribble(op["c"], False)
                    continue
                if name == "restart":
                    try:
                        w.open_store()
                    except Exception as e:
                        self.violation({"C14"}, "config", "config:refused-equal-config:restart:%s" % type(e).__name__,
                                       {"op": op, "cfg": w.cfg, "error": str(e)[:300]}, i)
                        break
                    res.flags.add("restart")
                    continue
                exp = mdl.apply(op)
                out, extra = self.exec(op)
                if out == ("exc", "DoesNotTerminate"):
                    self.violation({"C08"}, "liveness", "liveness:call-does-not-return:%s" % op["op"],
                                   {"op": op, "msg": extra.get("msg")}, i)
                    break
                if self.check_monitor(op, i):
                    break
                res.trace.append({"i": i, "op": op, "out": [out[0], _jsonable(out[1])],
                                  "exp": exp.describe()})
                self.note_flags(op, exp, out)
                if not exp.matches(out):
                    props = classify_outcome(op, exp, out, mp)
                    self.violation(props, "outcome", "outcome:%s:%s->%s" % (name, _expsig(exp), _outsig(out)),
                                   {"op": op, "expected": exp.describe(), "got": [out[0], _jsonable(out[1])],
                                    "extra": _jsonable(extra)}, i)
                    if self.stop():
                        break
                st = extra.get("stream")
                if st is not None and name in ("store", "smeta"):
                    if st.get("closed") or st.get("tell") != st.get("off") or st.get("error"):
                        self.violation({"C01"}, "stream", "stream:%s" % name, {"op": op, "stream": st}, i)
                        if self.stop():
                            break
                self.check_state(op, exp, i)

    def exec(self, op):
        if self.monitor is not None:
            self.monitor.begin(op, self.world)
            try:
                return self.world.exec_op(op)
            finally:
                self.monitor.end()
        return self.world.exec_op(op)

    def check_monitor(self, op, i):
        w = self.world
        if w.run.escapes:
            self.violation({"C18"}, "containment", "containment:%s" % w.run.escapes[0][0],
                           {"op": op, "escapes": w.run.escapes[:4]}, i)
            return True
        if self.monitor is not None and self.monitor.problem is not None:
            kind, detail = self.monitor.problem
            self.violation({"C18"}, "isolation", "isolation:%s" % kind, dict(detail, op=op), i)
            return True
        return False

    def note_flags(self, op, exp, out):
        f = self.res.flags
        name = op["op"]
        f.add("op:" + name)
        if out[0] == "exc":
            f.add("exc:" + out[1])
        if name in ("store", "tag") and exp.excs & M.ALREADY:
            f.add("rebind-rejected")
        if name == "store":
            if op.get("ck") or op.get("size"):
                f.add("validated-store")
            f.add("kind:" + op.get("kind", "str"))
            if op.get("add") or op.get("ckalgo"):
                f.add("algo-arg")
        if name == "div":
            f.add("div")
        if name == "delete" and out[0] == "ok":
            f.add("delete-ok")
        if name in ("smeta", "dmeta", "rmeta"):
            f.add("meta")
        if exp.weak:
            f.add("weak")

    def check_state(self, op, exp, i):
        """alpha(directory) == model state, plus look-ups through the public API."""
        w, mdl, res = self.world, self.model, self.res
        mp = w.mp
        a = w.alpha()
        snap0 = W.snapshot(w.store_root) if self.ro_snapshot else None
        diffs = W.compare_alpha(a, mdl)
        res.states.add(hashlib.sha1(mdl.state_key().encode()).hexdigest()[:12])
        if diffs:
            props = set()
            for d in diffs:
                props |= classify_diff(op, exp, d, mp)
            self.violation(props, "alpha", "alpha:%s:%s" % (op["op"] if op else "init",
                                                           ",".join(sorted(set(d[0] for d in diffs)))),
                           {"op": op, "diffs": diffs[:6]}, i)
            if self.stop():
                return
        if not self.probes:
            return
        # look-ups through the API: every pid of the alphabet
        for pi, pid in enumerate(w.pids):
            pexp = mdl.op_retrieve({"pid": pi})
            out, extra = self.exec({"op": "retrieve", "pid": pi})
            if not pexp.matches(out):
                props = {"C05"}
                if pexp.has_ok:
                    props |= {"C01", "C04"}
                if mp:
                    props.add("C16")
                self.violation(props, "probe", "probe:retrieve:%s->%s" % (_expsig(pexp), _outsig(out)),
                               {"after": op, "pid": pid, "expected": pexp.describe(),
                                "got": [out[0], _jsonable(out[1])]}, i)
                if self.stop():
                    return
        fmts = [None] + list(range(len(w.formats)))
        for pi, pid in enumerate(w.pids):
            for f in fmts:
                pexp = mdl.op_rmeta({"pid": pi, "fmt": f})
                if not pexp.has_ok and len(w.pids) * len(fmts) > 12 and (pi + (f or 0) + i) % 3:
                    continue  # sample the absent ones when the alphabet is large
                out, extra = self.exec({"op": "rmeta", "pid": pi, "fmt": f})
                if not pexp.matches(out):
                    props = {"C11"}
                    if mp:
                        props.add("C16")
                    self.violation(props, "probe", "probe:rmeta:%s->%s" % (_expsig(pexp), _outsig(out)),
                                   {"after": op, "pid": pid, "fmt": f, "expected": pexp.describe(),
                                    "got": [out[0], _jsonable(out[1])]}, i)
                    if self.stop():
                        return
        # the look-ups themselves must not have changed anything (C17: read-only calls)
        if diffs:
            return  # the read-only comparison below needs a state that agreed to begin with
        a2 = w.alpha()
        if _alpha_key(a2) != _alpha_key(a):
            self.violation({"C17"}, "probe", "probe:readonly-changed", {"after": op}, i)
            return
        if snap0 is not None:
            snap1 = W.snapshot(w.store_root)
            if snap1 != snap0:
                self.violation({"C17"}, "probe", "probe:readonly-changed-snapshot",
                               {"after": op, "diff": sorted(set(snap1.items()) ^ set(snap0.items()))[:6]}, i)
                return
        self.check_monitor(op, i)


def _alpha_key(a):
    return (sorted(a["objs"]), sorted(a["pidrefs"].items()), sorted((k, tuple(v)) for k, v in a["cidrefs"].items()),
            sorted((k, hashlib.sha1(v).hexdigest()) for k, v in a["meta"].items()),
            sorted(a["tmp"]), sorted(a["markers"]), sorted(a["foreign"]))


def _expsig(exp):
    if exp.has_ok and not exp.excs:
        return "ok"
    if exp.weak:
        return "weak"
    return "|".join(sorted(exp.excs)) + ("|ok" if exp.has_ok else "")


def _outsig(out):
    return "ok" if out[0] == "ok" else out[1]


def run_seq(prog, **kw):
    return SeqEngine(prog, **kw).run()
