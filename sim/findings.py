"""Known findings: /verif/known_findings.json is committed and read-only at run time.

entry = {id, property, status: "known" | "fixed", what, commit?, replay?, match: {part?, sig_regex,
         shape?}}

* known  -> the check prints 'KNOWN-FINDING: property=<id> <what>' and a violation that matches
            the entry's signature does not fail the check; any other violation does.
* fixed  -> suppresses nothing; its committed replay is re-run as a regression case.
"""

import json
import os
import re

HERE = os.path.dirname(os.path.dirname(os.path.abspath(__file__)))
PATH = os.path.join(HERE, "known_findings.json")


def load():
    if not os.path.exists(PATH):
        return []
    return json.load(open(PATH)).get("findings", [])


def shape_of(prog):
    """Scenario shape of a program: operation kinds and the sharing relation between the
    identifiers they use (not a seed)."""
    def kinds(ops):
        return [o.get("op") if o.get("op") != "raw" else "raw:" + o.get("method", "") for o in ops]
    sh = {}
    if "tasks" in prog:
        sh["tasks"] = sorted(tuple(kinds(t)) for t in prog["tasks"])
        pids = [sorted(set(o.get("pid") for o in t if o.get("pid") is not None)) for t in prog["tasks"]]
        sh["same_pid"] = len(pids) > 1 and any(set(pids[i]) & set(pids[j]) for i in range(len(pids))
                                               for j in range(i + 1, len(pids)))
    if "call" in prog:
        sh["call"] = prog["call"].get("op")
    if "fault" in prog:
        f = prog["fault"]
        sh["fault"] = {"persistent": bool(f.get("persistent"))}
    return sh


def match(prop, entries, part, prog, v):
    for e in entries:
        if e.get("property") != prop or e.get("status") != "known":
            continue
        m = e.get("match", {})
        if m.get("part") and m["part"] != part.name:
            continue
        if m.get("sig_regex") and not re.search(m["sig_regex"], v.get("sig", "")):
            continue
        want = m.get("shape")
        if want:
            sh = shape_of(prog)
            if "tasks" in want and sorted(tuple(t) for t in want["tasks"]) != sh.get("tasks"):
                continue
            if "call" in want and want["call"] != sh.get("call"):
                continue
            if "same_pid" in want and want["same_pid"] != sh.get("same_pid"):
                continue
            if "fault_site" in want:
                fs = v.get("detail", {}).get("fault_site", {}) if isinstance(v.get("detail"), dict) else {}
                if any(fs.get(k) != val for k, val in want["fault_site"].items()):
                    continue
        return e
    return None


def preflight(prop, entries, run_replay):
    lines = []
    regress = []
    for e in entries:
        if e.get("property") != prop:
            continue
        rp = e.get("replay")
        path = os.path.join(HERE, rp) if rp else None
        if e.get("status") == "known":
            note = ""
            if path and os.path.exists(path):
                rc = run_replay(path)
                note = " [committed replay %s: %s]" % (rp, "still reproduces" if rc == 1 else "does not reproduce (rc=%d)" % rc)
            lines.append("KNOWN-FINDING: property=%s %s%s" % (prop, e.get("what", ""), note))
        elif e.get("status") == "fixed":
            if path and os.path.exists(path):
                rc = run_replay(path)
                if rc == 1:
                    regress.append(path)
                elif rc == 2:
                    lines.append("note: regression replay %s could not be executed (harness)" % rp)
    return lines, regress
