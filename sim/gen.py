"""Seeded generators.  One integer (VERIF_SEED) decides everything: per-run seeds are
SHA-256(VERIF_SEED, property, run index); every choice below is drawn from one
``random.Random`` initialised from that.  Programs are generated *as data* (JSON-able) before
they are executed."""

import hashlib
import os
import random

from . import model as M

DEFAULT_NS = "https://ns.dataone.org/service/types/v2.0#"
STORE_ALGOS = ["MD5", "SHA-1", "SHA-256", "SHA-384", "SHA-512"]

PID_POOL = ["a", "ab", "ab.c", "b", "doi:10.18739/A2901ZH2M", "urn:uuid:1b35d0a5-b17a", "A",
            "jtao.1700.1", "a/b", "..", "-rf", "p*?[1]", "doi:10.5063/caf\u00e9", "\u65e5\u672c\u8a9e", "\U0001F600x",
            "doi:10.5063/cafe\u0301"]  # (the last one: same NFC form as the composed spelling, a different pid)
FORMAT_POOL = [DEFAULT_NS, "http://ns.dataone.org/service/types/v1", "eml://eml-2.2.0", "c", "bc", "f"]


def run_seed(verif_seed, prop, index):
    h = hashlib.sha256(("%s|%s|%s" % (verif_seed, prop, index)).encode()).hexdigest()
    return int(h[:15], 16)


def rng_for(seed):
    return random.Random("prog:%d" % seed)


def spell(rng, canon, plain=False):
    """An accepted spelling of a canonical algorithm name."""
    if plain:
        return canon
    if canon.startswith("sha3_"):
        s = "sha3" + rng.choice("-_") + canon[5:]
    elif canon.startswith("sha") or canon == "md5":
        i = 3 if canon.startswith("sha") else 2
        s = canon[:i] + rng.choice(["", "", "-", "_"]) + canon[i:]
    else:
        s = canon
    mode = rng.randrange(4)
    if mode == 0:
        s = s.upper()
    elif mode == 1:
        s = "".join(ch.upper() if rng.random() < 0.5 else ch for ch in s)
    elif mode == 2:
        s = s.lower()
    assert M.normalise_algo(s) == canon, (s, canon)
    return s


UNSUPPORTED_ALGOS = ["sm3", "sha-3256", "sha3256", "md4", "crc32", "sha257", "blake3", "sha3_225"]


def gen_cfg(rng, simple=False):
    if simple:
        return {"store_depth": 3, "store_width": 2, "store_algorithm": "SHA-256",
                "store_metadata_namespace": DEFAULT_NS}
    algo = rng.choice(STORE_ALGOS)
    # depth*width must stay below the digest length (outside the quantifier otherwise)
    depth = rng.randint(1, 5)
    width = rng.randint(1, 4)
    return {"store_depth": depth, "store_width": width, "store_algorithm": algo,
            "store_metadata_namespace": rng.choice([DEFAULT_NS, DEFAULT_NS, "urn:ns:sysmeta", "fmt-default"])}


RELSTORE_P = float(__import__("os").environ.get("VERIF_RELSTORE_P", 0.1))  # share of SEQ histories whose store_path is relative to the working directory


def maybe_skin(rng, knobs):
    """Identifier 'skins' (applied by World to every pid of the program, injectively): long identifiers
    (reference files of many kB: beyond one read buffer) and identifiers made of characters that mean
    something to printf / str.format / logging."""
    if rng.random() < 0.15:
        knobs["short_writes"] = True
    r = rng.random()
    if r < 0.05:
        knobs["pid_skin"] = ["long", rng.choice([2800, 4200, 8200, 9000])]
    elif r < 0.12:
        knobs["pid_skin"] = ["fmt", rng.randrange(4)]
    return knobs


def gen_knobs(rng, mp=None):
    b = rng.choice([None, 1, 2, 3, 5, 7, 16, 64, 100, 512, 4096, 8192])
    return maybe_skin(rng, {"blksize": b, "write_through": rng.random() < 0.3,
                            "shuffle_listdir": True, "mp": (rng.random() < 0.25) if mp is None else mp})


def gen_contents(rng, blksize, n, big=False):
    b = blksize or 4096
    sizes = [0, 1, b - 1, b, b + 1, 2 * b - 1, 2 * b, 2 * b + 1, 3 * b + rng.randrange(0, b)]
    sizes = [s for s in sizes if 0 <= s <= 140000]
    if big:
        sizes += [5 * b + 3, 40000 + rng.randrange(100), 65535, 65536, 65537, 131073, 4096, 8192, 12288, 16384]
        if blksize is None or blksize >= 512:
            sizes += [262143, 262145, 300000 + rng.randrange(1000), 524288 + 7, 1048576 + 1]
    out = []
    seen = set()
    while len(out) < n:
        s = rng.choice(sizes) if rng.random() < 0.85 else rng.randrange(0, 40)
        k = rng.randrange(1, 200) if s else 0
        if (s, k) in seen:
            continue
        seen.add((s, k))
        spec = [s, k]
        if s > 1 and rng.random() < 0.3:
            spec.append(rng.choice(["zeros", "ztail", "zhead", "zmid", "ff", "text"]))
        out.append(spec)
    # distinct contents are required (each content stands for one cid)
    from . import world as _w
    seen_bytes = set()
    uniq = []
    for spec in out:
        b = _w.make_content(spec)
        if b in seen_bytes:
            spec = spec[:2]
            b = _w.make_content(spec)
            if b in seen_bytes:
                continue
        seen_bytes.add(b)
        uniq.append(spec)
    while len(uniq) < n:
        spec = [len(uniq) + 2, 201 + len(uniq)]
        if _w.make_content(spec) not in seen_bytes:
            seen_bytes.add(_w.make_content(spec))
            uniq.append(spec)
    return uniq


PROFILES = {
    # weights of operation kinds per property profile
    "C01": dict(store=8, store_nopid=1, retrieve=5, delete=2, tag=1, div=1, hexdigest=1, smeta=1, dmeta=1, restart=1, scribble=1),
    "C02": dict(store=8, store_nopid=1, hexdigest=6, delete=2, restart=1, retrieve=1, raw_bad=2, smeta=1),
    "C03": dict(store=7, tag=6, delete=3, div=1, store_nopid=1, retrieve=1, raw_bad=1),
    "C04": dict(store=7, delete=5, div=3, tag=2, smeta=1, dmeta=1, store_nopid=1, retrieve=2),
    "C05": dict(store=6, store_nopid=2, tag=5, delete=5, div=2, smeta=1, dmeta=1, retrieve=1, hexdigest=1, restart=1, raw_bad=2),
    "C06": dict(store=9, div=7, store_nopid=3, delete=2, tag=1, raw_bad=1),
    "C11": dict(smeta=8, rmeta=4, dmeta=5, delete=3, store=3, tag=2, restart=1, raw_bad=1),
    "C16": dict(store=6, store_nopid=1, tag=3, delete=4, div=1, smeta=4, rmeta=2, dmeta=3, retrieve=1, hexdigest=1),
    "C17": dict(store=4, store_nopid=3, tag=1, delete=1, smeta=2, raw_bad=10, raw_ro=5, restart=1),
    "C18": dict(store=5, tag=2, delete=3, smeta=5, rmeta=2, dmeta=3, retrieve=2, store_nopid=1),
    "C19": dict(store=4, store_nopid=2, tag=2, delete=2, div=1, converge=4),
    "C14": dict(store=4, smeta=2, delete=1, reopen=5, restart=1),
}

DATA_KINDS = ["str", "path", "file", "mem", "bytesio", "bufreader", "rwfile"]


def pick_weighted(rng, weights):
    total = sum(weights.values())
    x = rng.random() * total
    for k in sorted(weights):
        x -= weights[k]
        if x < 0:
            return k
    return sorted(weights)[-1]


def gen_store_op(rng, prof, npids, ncontents, pid=None, focus=None, store_algo=None):
    op = {"op": "store", "pid": rng.randrange(npids) if pid is None else pid, "c": rng.randrange(ncontents)}
    if prof in ("C01",) or rng.random() < 0.3:
        op["kind"] = rng.choice(DATA_KINDS)
        if op["kind"] not in ("str", "path"):
            op["off"] = rng.choice([0, 0, 1, 3, 10 ** 6])
            if op["kind"] == "mem":
                op["short"] = rng.choice([0, 1, 2, 3, 4])
    else:
        op["kind"] = rng.choice(["str", "path"])
    if rng.random() < 0.04:
        op["kind"] = "missing"
        op.pop("off", None)
        op.pop("short", None)
    want_algo = prof in ("C02",) or rng.random() < 0.25
    want_val = prof in ("C06", "C19") or rng.random() < 0.25
    if want_algo and rng.random() < 0.8:
        op["add"] = spell(rng, rng.choice(M.ALL_ALGOS))
    if want_val:
        mode = rng.random()
        if mode < 0.8:
            canon = rng.choice(M.ALL_ALGOS)
            op["ckalgo"] = spell(rng, canon)
            op["ck"] = rng.choice(["ok", "ok", "upper", "mixed", "wrong", "wronglen", "wrongcase", "wrong-nonascii"])
        if rng.random() < 0.6:
            op["size"] = rng.choice(["ok", "ok", "wrong", "wrong-"])
    elif want_algo and rng.random() < 0.5:
        canon = rng.choice(M.ALL_ALGOS)
        op["ckalgo"] = spell(rng, canon)
        op["ck"] = rng.choice(["ok", "upper"])
    # correlated arguments: the same algorithm asked for twice, the store's own algorithm, plain spellings
    r = rng.random()
    if op.get("ckalgo") and r < 0.2:
        op["add"] = op["ckalgo"]
    elif op.get("ckalgo") and r < 0.35 and store_algo:
        plain = M.STORE_ALGOS[store_algo]
        op["ckalgo"] = rng.choice([plain, store_algo])
        op["add"] = rng.choice([op["ckalgo"], plain, None])
        if op["add"] is None:
            del op["add"]
    elif op.get("add") and r < 0.45 and store_algo:
        op["add"] = rng.choice([M.STORE_ALGOS[store_algo], store_algo])
    return op


def gen_div_op(rng, ncontents):
    canon = rng.choice(M.ALL_ALGOS)
    return {"op": "div", "c": rng.randrange(ncontents), "ckalgo": spell(rng, canon),
            "ck": rng.choice(["ok", "ok", "upper", "mixed", "wrong", "wronglen", "wrongcase", "wrong-nonascii"]),
            "size": rng.choice(["ok", "ok", "ok", "wrong", "wrong-"]),
            "meta_has_algo": rng.random() < 0.3,
            # which ObjectMetadata object the caller passes: a fresh one, the one it passed last time for this
            # content, or the very object store_object returned for this content
            "reuse_om": rng.choice([None, "inst", "inst", "ret"])}


def gen_seq_program(seed, prof, tier="quick", mp=None, length=None):
    rng = rng_for(seed)
    cfg = gen_cfg(rng)
    if prof == "C14":
        from . import cfgspace
        cfg = cfgspace.gen_create_cfg(rng)
        if rng.random() < 0.25:
            cfg["store_depth"] = rng.choice([str(cfg["store_depth"]), "0%d" % cfg["store_depth"], " %d" % cfg["store_depth"]])
        if rng.random() < 0.15:
            cfg["store_width"] = rng.choice([str(cfg["store_width"]), "0%d" % cfg["store_width"], "%d " % cfg["store_width"]])
    knobs = gen_knobs(rng, mp=mp)
    if rng.random() < RELSTORE_P and prof != "C19":  # (C19 runs two worlds side by side: one working directory)
        knobs["relstore"] = True
    if prof == "C18":
        from . import adversarial
        pids = adversarial.gen_ids(rng, rng.randint(2, 3))
        formats = [cfg["store_metadata_namespace"]] + adversarial.gen_ids(rng, 2)
        if rng.random() < 0.15:
            # (pid, format) pairs whose concatenations coincide: x+y with z, and x with y+z
            x, y, z = adversarial.gen_id(rng)[:40], adversarial.gen_id(rng)[:20], adversarial.gen_id(rng)[:20]
            if x and y and z and x + y != x:
                pids = [x + y, x] + [p for p in pids[:1] if p not in (x + y, x)]
                formats = [cfg["store_metadata_namespace"], z, y + z]
        if rng.random() < 0.15:
            # identifiers that happen to be (relative) paths of existing files with equal content
            knobs["chdir"] = True
            pids = rng.sample(["input/c0", "input/c0.copy", "./input/c0", "input/c1", "input/../input/c0"], 2) + pids[:1]
    else:
        npid = rng.randint(2, 4)
        pool = list(PID_POOL)
        first = rng.choice([["a", "ab"], ["ab", "a"], ["ab.c", "ab"], ["ab", "b"], ["b", "ab"], ["a/b", "b"], [], [],
                            ["doi:10.5063/caf\u00e9", "doi:10.5063/cafe\u0301"], ["A", "a"]])
        pids = list(first)
        while len(pids) < npid:
            p = rng.choice(pool)
            if p not in pids:
                pids.append(p)
        formats = [cfg["store_metadata_namespace"]]
        for f in rng.sample(FORMAT_POOL[1:], rng.randint(1, 3)):
            formats.append(f)
        if "a" in pids and "ab" in pids and rng.random() < 0.7:
            for f in ("c", "bc"):
                if f not in formats:
                    formats.append(f)
    ncont = rng.randint(2, 3)
    contents = gen_contents(rng, knobs["blksize"], ncont, big=(prof == "C01" and rng.random() < 0.3) or
                            (prof in ("C02", "C06", "C19") and rng.random() < 0.1))
    mcontents = gen_contents(rng, knobs["blksize"], 3)
    if prof in ("C02", "C11", "C16") and rng.random() < (0.6 if prof == "C02" else 0.15):
        mcontents[0] = [300, rng.randrange(1, 50), "sysmeta:" + rng.choice(["md5", "sha1", "sha256", "sha512", "sha224"])]
    weights = PROFILES[prof]
    if length is None:
        length = rng.randint(8, 40) if tier == "quick" else rng.randint(10, 120)
    ops = []
    npids = len(pids)
    if "raw_bad" in weights:
        pids.append("never-bound:pid")  # index npids: only the invalid-call grammar refers to it
    for _ in range(length):
        k = pick_weighted(rng, weights)
        if k == "store":
            ops.append(gen_store_op(rng, prof, npids, ncont, store_algo=cfg["store_algorithm"]))
        elif k == "store_nopid":
            op = {"op": "store", "pid": None, "c": rng.randrange(ncont), "kind": rng.choice(["str", "path", "file"])}
            ops.append(op)
        elif k == "tag":
            r = rng.random()
            ref = ["c", rng.randrange(ncont)] if r < 0.7 else (["x", rng.randrange(2)] if r < 0.93 else ["C", rng.randrange(ncont)])
            ops.append({"op": "tag", "pid": rng.randrange(npids), "cid": ref})
        elif k == "delete":
            ops.append({"op": "delete", "pid": rng.randrange(npids)})
        elif k == "div":
            op = gen_div_op(rng, ncont)
            prev = [o for o in ops if o["op"] == "div"]
            if prev and rng.random() < 0.35:
                # validate the same content again, naming the same algorithm (another spelling of the checksum)
                op["c"], op["ckalgo"], op["reuse_om"] = prev[-1]["c"], prev[-1]["ckalgo"], prev[-1].get("reuse_om") or "inst"
                op["meta_has_algo"] = prev[-1].get("meta_has_algo", False)
            ops.append(op)
        elif k == "retrieve":
            ops.append({"op": "retrieve", "pid": rng.randrange(npids)})
        elif k == "hexdigest":
            algo = rng.choice(M.ALL_ALGOS)
            if len(mcontents[0]) > 2 and str(mcontents[0][2]).startswith("sysmeta:") and rng.random() < 0.6:
                algo = mcontents[0][2].split(":", 1)[1]   # the algorithm a stored system-metadata document names
            ops.append({"op": "hexdigest", "pid": rng.randrange(npids), "algo": spell(rng, algo)})
        elif k == "smeta":
            op = {"op": "smeta", "pid": rng.randrange(npids), "m": rng.randrange(len(mcontents)),
                  "fmt": rng.choice([None] + list(range(len(formats)))),
                  "kind": rng.choice(["str", "path", "file", "str", "mem", "bytesio", "bufreader", "rwfile"])}
            if op["kind"] in ("file", "mem", "bytesio", "bufreader"):
                op["off"] = rng.choice([0, 2])
            if op["kind"] in ("mem", "rwfile"):
                op["short"] = rng.choice([0, 1, 3])
            if op["fmt"] is None and rng.random() < 0.3:
                op["explicit_none"] = True
            if rng.random() < 0.05:
                op["kind"] = "missing"
            ops.append(op)
        elif k == "rmeta":
            ops.append({"op": "rmeta", "pid": rng.randrange(npids),
                        "fmt": rng.choice([None] + list(range(len(formats))))})
        elif k == "dmeta":
            ops.append({"op": "dmeta", "pid": rng.randrange(npids),
                        "fmt": rng.choice([None, None] + list(range(len(formats))))})
        elif k == "restart":
            ops.append({"op": "restart"})
        elif k == "scribble":
            ops.append({"op": "scribble", "c": rng.randrange(ncont)})
        elif k == "raw_bad":
            from . import badargs
            ops.append(badargs.gen_bad(rng, npids, ncont, len(formats)))
        elif k == "raw_ro":
            c = rng.randrange(3)
            if c == 0:
                ops.append({"op": "retrieve", "pid": rng.randrange(npids), "ro": True})
            elif c == 1:
                ops.append({"op": "rmeta", "pid": rng.randrange(npids),
                            "fmt": rng.choice([None] + list(range(len(formats)))), "ro": True})
            else:
                ops.append({"op": "hexdigest", "pid": rng.randrange(npids),
                            "algo": spell(rng, rng.choice(M.ALL_ALGOS)), "ro": True})
        elif k == "converge":
            pid = rng.randrange(npids)
            sop = gen_store_op(rng, "C19", npids, ncont, pid=pid, store_algo=cfg["store_algorithm"])
            sop["kind"] = rng.choice(["str", "path"])
            if sop.get("size") and not sop.get("ck"):
                # the step-wise procedure always passes a checksum to delete_if_invalid_object
                sop["ckalgo"] = spell(rng, rng.choice(M.ALL_ALGOS))
                sop["ck"] = "ok"
            sop.pop("add", None)
            ops.append({"op": "converge", "store": sop})
        elif k == "reopen":
            from . import cfgspace
            ops.append(dict({"op": "reopen"}, **cfgspace.gen_reopen(rng, cfg)))
    if prof != "C14" and rng.random() < 0.12:
        # two instances opened on the same store directory (two clients of one store): calls are routed to
        # either; everything the properties promise is about the store, not about one Python object
        knobs["two_instances"] = True
        for op in ops:
            if op["op"] in ("store", "tag", "delete", "div", "smeta", "dmeta", "retrieve", "rmeta", "hexdigest") \
                    and rng.random() < 0.4:
                op["inst"] = 1
    return {"seed": seed, "engine": "seq", "prof": prof, "cfg": cfg, "knobs": knobs, "pids": pids,
            "formats": formats, "contents": contents, "mcontents": mcontents, "ops": ops}


# ------------------------------------------------------------------------------------------
# CONC scenarios
# ------------------------------------------------------------------------------------------

POLICIES = ["random", "random", "pct", "pct", "bounded", "probe", "race", "race"]


def gen_conc_knobs(rng, mp=None, tier="quick"):
    k = {"blksize": rng.choice([None, None, 3, 64]), "write_through": rng.random() < 0.2,
         "shuffle_listdir": True, "mp": (rng.random() < 0.2) if mp is None else mp,
         "policy": rng.choice(POLICIES), "wake": "fifo" if rng.random() < 0.6 else "random",
         "spurious": 0.0 if rng.random() < 0.8 else 0.2,
         "est_len": rng.choice([40, 80, 150, 300, 600]), "pct_depth": rng.choice([1, 2, 2, 3]),
         "bound": rng.choice([1, 2, 3])}
    if k["mp"]:
        k["wake"] = "random"
    if rng.random() < float(os.environ.get("VERIF_LINE_TRACE_P", 0.1)):
        k["line_trace"] = True   # statements of filehashstore.py are pre-emption points too
    return maybe_skin(rng, k)


def _obj_setup(rng, npids, ncont):
    """Start states of C07 (as set-up histories)."""
    choice = rng.randrange(8)
    if choice == 0:
        return []
    if choice == 1:
        return [{"op": "store", "pid": 0, "c": 0, "kind": "str"}]
    if choice == 2:
        return [{"op": "store", "pid": 0, "c": 0, "kind": "str"}, {"op": "store", "pid": 1, "c": 0, "kind": "str"}]
    if choice == 3:
        return [{"op": "store", "pid": None, "c": 0, "kind": "str"}]
    if choice == 4:
        return [{"op": "tag", "pid": 0, "cid": ["x", 0]}]
    if choice == 5:
        return [{"op": "store", "pid": 0, "c": 0, "kind": "str"}, {"op": "store", "pid": 1, "c": 1, "kind": "str"}]
    if choice == 6:
        return [{"op": "tag", "pid": 0, "cid": ["c", 0]}]
    # random short history
    out = []
    for _ in range(rng.randint(1, 4)):
        r = rng.random()
        if r < 0.5:
            out.append({"op": "store", "pid": rng.randrange(npids), "c": rng.randrange(ncont), "kind": "str"})
        elif r < 0.7:
            out.append({"op": "tag", "pid": rng.randrange(npids), "cid": ["c", rng.randrange(ncont)]})
        elif r < 0.85:
            out.append({"op": "delete", "pid": rng.randrange(npids)})
        else:
            out.append({"op": "store", "pid": None, "c": rng.randrange(ncont), "kind": "str"})
    return out


def _obj_task_op(rng, npids, ncont):
    r = rng.random()
    if r < 0.40:
        op = {"op": "store", "pid": rng.randrange(npids), "c": rng.randrange(ncont), "kind": rng.choice(["str", "str", "path", "file"])}
        if rng.random() < 0.15:
            op["ckalgo"] = rng.choice(["sha256", "SHA-1", "sha3_256"])
            op["ck"] = rng.choice(["ok", "wrong"])
        return op
    if r < 0.47:
        return {"op": "store", "pid": None, "c": rng.randrange(ncont), "kind": "str"}
    if r < 0.65:
        q = rng.random()
        ref = ["c", rng.randrange(ncont)] if q < 0.8 else (["x", 0] if q < 0.93 else ["C", rng.randrange(ncont)])
        return {"op": "tag", "pid": rng.randrange(npids), "cid": ref}
    if r < 0.92:
        return {"op": "delete", "pid": rng.randrange(npids)}
    return {"op": "div", "c": rng.randrange(ncont), "ckalgo": rng.choice(["sha256", "md5", "sha224"]),
            "ck": rng.choice(["ok", "wrong", "wrong"]), "size": rng.choice(["ok", "wrong"])}


def gen_conc_metax(seed, tier="quick", mp=None):
    """Metadata calls of two DIFFERENT pids whose (pid, format) concatenations coincide
    ('ab'+'c' == 'a'+'bc'): documents of different pairs must not affect one another, also when
    the calls overlap."""
    rng = rng_for(seed)
    cfg = gen_cfg(rng, simple=True)
    knobs = gen_conc_knobs(rng, mp=mp, tier=tier)
    knobs["blksize"] = None
    pids = ["ab", "a"]
    formats = [cfg["store_metadata_namespace"], "c", "bc"]
    mcontents = [[6, 1], [40, 2], [4000 + rng.randrange(3000), 3]]
    setup = []
    if rng.random() < 0.8:
        setup.append({"op": "smeta", "pid": 0, "fmt": 1, "m": 0})      # ('ab', 'c')
    if rng.random() < 0.4:
        setup.append({"op": "smeta", "pid": 1, "fmt": 2, "m": 1})      # ('a', 'bc')
    if rng.random() < 0.4:
        setup.append({"op": "smeta", "pid": 0, "fmt": None, "m": 1})
    if rng.random() < 0.3:
        setup.append(_st(0, 0))

    def op_for(pi):
        f = [1, None, 0] if pi == 0 else [2, 2, None]
        r = rng.random()
        if r < 0.35:
            return {"op": "smeta", "pid": pi, "fmt": rng.choice(f), "m": rng.randrange(3)}
        if r < 0.5:
            return {"op": "rmeta", "pid": pi, "fmt": rng.choice(f)}
        if r < 0.65:
            return {"op": "dmeta", "pid": pi, "fmt": rng.choice([x for x in f if x is not None])}
        if r < 0.9:
            return {"op": "dmeta", "pid": pi, "fmt": None}
        return {"op": "delete", "pid": pi}
    tasks = [[op_for(0) for _ in range(rng.choice([1, 1, 2]))], [op_for(1) for _ in range(rng.choice([1, 1, 2]))]]
    if rng.random() < 0.3:
        tasks.append([op_for(rng.randrange(2))])
    return {"seed": seed, "engine": "conc", "family": "metax", "cfg": cfg, "knobs": knobs, "pids": pids,
            "formats": formats, "contents": [[7, 3], [12, 5]], "mcontents": mcontents, "setup": setup,
            "tasks": tasks, "stagger": [0] + [rng.choice([0, 0, 5, 20]) for _ in tasks[1:]]}


def gen_conc_program(seed, family="obj", tier="quick", mp=None, ntasks=None):
    if family == "metax":
        return gen_conc_metax(seed, tier, mp)
    algo_family = family == "objalgo"
    if algo_family:
        family = "obj"
    prog = _gen_conc_program(seed, family, tier, mp, ntasks)
    if algo_family:
        rng = random.Random("algo:%d" % seed)
        for ops in [prog["setup"]] + prog["tasks"]:
            for op in ops:
                if op["op"] == "store" and op.get("pid") is not None and rng.random() < 0.8:
                    op["add"] = spell(rng, rng.choice(M.OTHER_ALGOS))
                    if rng.random() < 0.5:
                        op["ckalgo"] = spell(rng, rng.choice(M.ALL_ALGOS))
                        op["ck"] = rng.choice(["ok", "upper"])
        prog["family"] = "objalgo"
    return prog


def _gen_conc_program(seed, family="obj", tier="quick", mp=None, ntasks=None):
    rng = rng_for(seed)
    cfg = gen_cfg(rng) if rng.random() < 0.5 else gen_cfg(rng, simple=True)
    knobs = gen_conc_knobs(rng, mp=mp, tier=tier)
    if ntasks is None:
        r = rng.random()
        ntasks = 2 if r < 0.7 else (3 if r < 0.95 or tier == "quick" else 4)
    if family == "obj":
        npids = rng.choice([2, 2, 3])
        pids = rng.sample(["a", "ab", "b", "doi:10/x", "urn:1"], npids)
        ncont = 2
        contents = gen_contents(rng, knobs["blksize"] or 16, ncont)
        contents = [[min(c[0], 200), c[1]] for c in contents]
        if contents[0] == contents[1]:
            contents[1] = [contents[1][0] + 1, contents[1][1]]
        formats = [cfg["store_metadata_namespace"]]
        setup = _obj_setup(rng, npids, ncont)
        tasks = []
        for _ in range(ntasks):
            tasks.append([_obj_task_op(rng, npids, ncont) for _ in range(1 if rng.random() < 0.7 else 2)])
        mcontents = [[5, 1], [9, 2]]
        if rng.random() < 0.08:
            # a pid that passes the string checks but cannot be hashed (lone surrogate): every call on it is refused
            # part-way -- after the claims were taken
            pids = pids + [M.BAD_PID]
            for t in tasks:
                for op in t:
                    if op.get("pid") is not None and op["op"] in ("store", "tag", "delete") and rng.random() < 0.4:
                        op["pid"] = npids
                        for k in ("ck", "ckalgo", "size", "add"):
                            op.pop(k, None)
                        if op["op"] == "store":
                            op["kind"] = "str"
    else:  # metadata family (C12)
        pids = ["a", "ab"][: rng.choice([1, 1, 2])]
        npids = len(pids)
        formats = [cfg["store_metadata_namespace"], "fmt2"][: rng.choice([1, 2, 2])]
        contents = [[7, 3], [12, 5]]
        mcontents = [[rng.choice([0, 5, 40]), 1], [rng.choice([3, 9, 70]), 2], [4000 + rng.randrange(5000), 3]]
        setup = []
        if rng.random() < 0.6:
            setup.append({"op": "smeta", "pid": 0, "fmt": rng.choice([None, 0]), "m": 0})
        if len(formats) > 1 and rng.random() < 0.5:
            setup.append({"op": "smeta", "pid": 0, "fmt": 1, "m": 1})
        if rng.random() < 0.4:
            setup.append({"op": "store", "pid": 0, "c": 0, "kind": "str"})
        if npids > 1 and rng.random() < 0.5:
            setup.append({"op": "smeta", "pid": 1, "fmt": None, "m": 1})

        def mop():
            r = rng.random()
            f = rng.choice([None] + list(range(len(formats))))
            p = 0 if rng.random() < 0.85 else rng.randrange(npids)
            if r < 0.35:
                return {"op": "smeta", "pid": p, "fmt": f, "m": rng.randrange(3)}
            if r < 0.55:
                return {"op": "rmeta", "pid": p, "fmt": f}
            if r < 0.72:
                return {"op": "dmeta", "pid": p, "fmt": rng.choice(list(range(len(formats))))}
            if r < 0.88:
                return {"op": "dmeta", "pid": p, "fmt": None}
            return {"op": "delete", "pid": p}
        tasks = [[mop() for _ in range(1 if rng.random() < 0.6 else 2)] for _ in range(ntasks)]
    stagger = [0] + [rng.choice([0, 0, 5, 20, 60]) for _ in range(ntasks - 1)]
    return {"seed": seed, "engine": "conc", "family": family, "cfg": cfg, "knobs": knobs, "pids": pids,
            "formats": formats, "contents": contents, "mcontents": mcontents, "setup": setup,
            "tasks": tasks, "stagger": stagger}


# ------------------------------------------------------------------------------------------
# single-call engines (FAULT / CRASH / ATOM): the fixed menus and random variants
# ------------------------------------------------------------------------------------------

def _st(pid, c, **kw):
    return dict({"op": "store", "pid": pid, "c": c, "kind": "str"}, **kw)


def single_states():
    """Start states as set-up histories over pids [p0,p1,p2], contents [A,B], formats [ns,f1]."""
    return [
        ("empty", []),
        ("p0=A", [_st(0, 0)]),
        ("p0=A,p1=A", [_st(0, 0), _st(1, 0)]),
        ("unref-A", [_st(None, 0)]),
        ("p0=A+meta,p1=B+meta", [_st(0, 0), {"op": "smeta", "pid": 0, "fmt": None, "m": 0},
                                 {"op": "smeta", "pid": 0, "fmt": 1, "m": 1}, _st(1, 1),
                                 {"op": "smeta", "pid": 1, "fmt": None, "m": 1}]),
        ("p0->missing", [{"op": "tag", "pid": 0, "cid": ["x", 0]}]),
        ("p2=A,p0=A,p1=A", [_st(2, 0), _st(0, 0), _st(1, 0)]),
        ("p0=A,p1=B", [_st(0, 0), _st(1, 1)]),
    ]


def single_calls(extended=False):
    calls = [
        ("store-new-pid-A", _st(2, 0)),
        ("store-new-pid-B", _st(2, 1)),
        ("store-bound-pid", _st(0, 1)),
        ("store-bound-pid-same", _st(0, 0)),
        ("store-validated", _st(2, 0, ckalgo="sha256", ck="ok", size="ok")),
        ("tag-A", {"op": "tag", "pid": 2, "cid": ["c", 0]}),
        ("tag-missing-0", {"op": "tag", "pid": 2, "cid": ["x", 0]}),   # (shared with p0 in the state "p0->missing")
        ("delete-p0", {"op": "delete", "pid": 0}),
        ("delete-p1", {"op": "delete", "pid": 1}),
        ("smeta-p0-default", {"op": "smeta", "pid": 0, "fmt": None, "m": 2}),
        ("smeta-p2-f1", {"op": "smeta", "pid": 2, "fmt": 1, "m": 1}),
        ("dmeta-p0-all", {"op": "dmeta", "pid": 0, "fmt": None}),
        ("dmeta-p0-f1", {"op": "dmeta", "pid": 0, "fmt": 1}),
    ]
    if extended:
        calls += [
            ("store-validated-wrong", _st(2, 0, ckalgo="md5", ck="wrong")),
            ("store-size-too-large", _st(2, 0, size="wrong")),
            ("store-size-too-small", _st(2, 1, size="wrong-")),
            ("store-validated-other-algo", _st(2, 1, ckalgo="sha3_256", ck="upper", add="blake2b")),
            ("store-file-stream", _st(2, 0, kind="file", off=1)),
            ("store-mem-stream", _st(2, 1, kind="mem", short=2)),
            ("div-valid", {"op": "div", "c": 0, "ckalgo": "sha224", "ck": "ok", "size": "ok"}),
            ("div-valid-upper", {"op": "div", "c": 0, "ckalgo": "blake2b", "ck": "upper", "size": "ok", "reuse_om": "ret"}),
            ("div-invalid", {"op": "div", "c": 0, "ckalgo": "sha256", "ck": "wrong", "size": "ok"}),
            ("tag-missing", {"op": "tag", "pid": 2, "cid": ["x", 1]}),
            ("tag-bound", {"op": "tag", "pid": 0, "cid": ["c", 1]}),
            ("tag-upper-case-cid", {"op": "tag", "pid": 2, "cid": ["C", 0]}),
            ("tag-bound-same", {"op": "tag", "pid": 0, "cid": ["c", 0]}),
            ("delete-p2-unknown", {"op": "delete", "pid": 2}),
            ("smeta-p0-f1-file", {"op": "smeta", "pid": 0, "fmt": 1, "m": 0, "kind": "file"}),
            ("dmeta-p1-all", {"op": "dmeta", "pid": 1, "fmt": None}),
            ("store-nopid-B", _st(None, 1)),
        ]
    return calls


def single_header(seed=0, blksize=None, write_through=False, mp=False, csize=(5, 9), cfg=None):
    cfg = cfg or gen_cfg(None, simple=True)
    return {"seed": seed, "cfg": cfg,
            "knobs": {"blksize": blksize, "write_through": write_through, "shuffle_listdir": True, "mp": mp},
            # (non-ASCII on purpose: byte length != character count, a torn rewrite can split a character)
            "pids": ["p0", "p\u00e91", "\U0001F600p2"], "formats": [cfg["store_metadata_namespace"], "f1"],
            "contents": [[csize[0], 3], [csize[1], 7]], "mcontents": [[6, 1], [11, 2], [3, 3]]}


def gen_single_random(seed, engine, tier="quick", only=None):
    """A random (start state, call, knobs) for the single-call engines: the start state is a
    short random history, the call is drawn from the extended menu shapes with random arguments."""
    rng = rng_for(seed)
    cfg = gen_cfg(rng)
    b = rng.choice([None, 1, 3, 16, 4096])
    bb = b or 16
    h = single_header(seed, blksize=b, write_through=rng.random() < 0.5, mp=False,
                      csize=(rng.choice([0, 1, bb - 1, bb, bb + 1, 2 * bb + 1, 3 * bb + 2]),
                             rng.choice([1, 2, bb, 2 * bb, 5000 + rng.randrange(9000)])), cfg=cfg)
    if h["contents"][0][0] == h["contents"][1][0]:
        h["contents"][1][0] += 1
    if rng.random() < 0.25:
        # content shapes (zero runs at the end / start / middle, constant bytes): block-aligned sizes included
        i = rng.randrange(2)
        h["contents"][i] = [rng.choice([4096, 8192, 12288, 16384, 3 * bb, 20000]) or 7, h["contents"][i][1],
                            rng.choice(["ztail", "zeros", "zhead", "zmid", "ff"])]
        if h["contents"][0][0] == h["contents"][1][0]:
            h["contents"][1 - i][0] += 1
    h["mcontents"] = [[rng.choice([0, 4, bb + 1]), 1], [rng.choice([1, 9, 3 * bb]), 2], [rng.choice([2, 8200]), 3]]
    setup = []
    for _ in range(rng.randint(0, 5)):
        r = rng.random()
        if r < 0.5:
            setup.append(_st(rng.randrange(3), rng.randrange(2)))
        elif r < 0.6:
            setup.append(_st(None, rng.randrange(2)))
        elif r < 0.7:
            setup.append({"op": "tag", "pid": rng.randrange(3), "cid": rng.choice([["c", 0], ["c", 1], ["x", 0]])})
        elif r < 0.8:
            setup.append({"op": "delete", "pid": rng.randrange(3)})
        else:
            setup.append({"op": "smeta", "pid": rng.randrange(3), "fmt": rng.choice([None, 0, 1]), "m": rng.randrange(3)})
    menu = single_calls(extended=True)
    if only:
        menu = [m for m in menu if m[0].startswith(only)]
    name, call = rng.choice(menu)
    call = dict(call)
    if call["op"] == "div" and rng.random() < 0.5:
        call["c"] = rng.randrange(2)
        call["ckalgo"] = spell(rng, rng.choice(M.ALL_ALGOS))
    if "pid" in call and call["pid"] is not None and rng.random() < 0.5:
        call["pid"] = rng.randrange(3)
    h.update({"engine": engine, "setup": setup, "call": call, "state": "random", "callname": name})
    maybe_skin(rng, h["knobs"])
    return h


# ------------------------------------------------------------------------------------------
# CONC: systematic pair sweep (every unordered pair of the menu x every start state)
# ------------------------------------------------------------------------------------------

def conc_obj_menu():
    return [
        _st(0, 0), _st(1, 0), _st(2, 0), _st(1, 1), _st(None, 0),
        {"op": "tag", "pid": 1, "cid": ["c", 0]}, {"op": "tag", "pid": 2, "cid": ["c", 0]},
        {"op": "tag", "pid": 0, "cid": ["x", 0]}, {"op": "tag", "pid": 0, "cid": ["c", 0]},
        {"op": "delete", "pid": 0}, {"op": "delete", "pid": 1},
        {"op": "div", "c": 0, "ckalgo": "sha256", "ck": "wrong", "size": "ok"},
        {"op": "div", "c": 0, "ckalgo": "sha224", "ck": "ok", "size": "ok"},
    ]


def conc_obj_states():
    return [
        [], [_st(0, 0)], [_st(0, 0), _st(1, 0)], [_st(None, 0)], [{"op": "tag", "pid": 0, "cid": ["x", 0]}],
        [_st(0, 0), _st(1, 1)], [{"op": "tag", "pid": 0, "cid": ["c", 0]}],
    ]


def conc_meta_menu():
    return [
        {"op": "smeta", "pid": 0, "fmt": None, "m": 0}, {"op": "smeta", "pid": 0, "fmt": None, "m": 1},
        {"op": "smeta", "pid": 0, "fmt": 1, "m": 2},
        {"op": "rmeta", "pid": 0, "fmt": None}, {"op": "rmeta", "pid": 0, "fmt": 1},
        {"op": "dmeta", "pid": 0, "fmt": 0}, {"op": "dmeta", "pid": 0, "fmt": 1}, {"op": "dmeta", "pid": 0, "fmt": None},
        {"op": "delete", "pid": 0},
    ]


def conc_meta_states():
    d0 = {"op": "smeta", "pid": 0, "fmt": None, "m": 0}
    d1 = {"op": "smeta", "pid": 0, "fmt": 1, "m": 1}
    return [[], [d0], [d0, d1], [_st(0, 0)], [_st(0, 0), d0, d1]]


def conc_pair_shapes(family):
    menu = conc_obj_menu() if family == "obj" else conc_meta_menu()
    states = conc_obj_states() if family == "obj" else conc_meta_states()
    out = []
    for si, st in enumerate(states):
        for i in range(len(menu)):
            for j in range(i, len(menu)):
                out.append((si, st, i, j, menu[i], menu[j]))
    return out


def conc_triple_shapes(family):
    menu = conc_obj_menu() if family == "obj" else conc_meta_menu()
    states = conc_obj_states() if family == "obj" else conc_meta_states()
    out = []
    n = len(menu)
    for si, st in enumerate(states):
        for i in range(n):
            for j in range(i, n):
                for k in range(j, n):
                    out.append((si, st, (i, j, k), [menu[i], menu[j], menu[k]]))
    return out


def gen_conc_pair(seed, family, shape, mp=False):
    if len(shape) == 4:
        si, st, idx, calls = shape
    else:
        si, st, i, j, a, b = shape
        idx, calls = (i, j), [a, b]
    rng = rng_for(seed)
    cfg = gen_cfg(rng, simple=True)
    knobs = gen_conc_knobs(rng, mp=mp)
    knobs["blksize"] = None
    if family == "obj":
        pids = ["p0", "p1", "p2"]
        formats = [cfg["store_metadata_namespace"]]
        contents = [[5, 3], [9, 7]]
        mcontents = [[5, 1], [9, 2]]
    else:
        pids = ["p0"]
        formats = [cfg["store_metadata_namespace"], "fmt2"]
        contents = [[7, 3], [12, 5]]
        mcontents = [[5, 1], [40, 2], [4500, 3]]
    return {"seed": seed, "engine": "conc", "family": family, "cfg": cfg, "knobs": knobs, "pids": pids,
            "formats": formats, "contents": contents, "mcontents": mcontents, "setup": [dict(o) for o in st],
            "tasks": [[dict(c)] for c in calls],
            "stagger": [0] + [rng.choice([0, 0, 3, 15, 40]) for _ in calls[1:]],
            "shape": [si] + list(idx)}


# ------------------------------------------------------------------------------------------
# SEQ: bounded-exhaustive short histories
# ------------------------------------------------------------------------------------------

def seq_enum_menu(family):
    if family == "obj":
        # pids: 0 = "a", 1 = "ab" (prefix-related); contents: 0, 1; cids: existing content / never stored
        return [
            _st(0, 0), _st(1, 0), _st(0, 1), _st(None, 0),
            _st(1, 0, ckalgo="md5", ck="wrong"),
            {"op": "tag", "pid": 0, "cid": ["c", 0]}, {"op": "tag", "pid": 1, "cid": ["c", 0]},
            {"op": "tag", "pid": 0, "cid": ["x", 0]}, {"op": "tag", "pid": 1, "cid": ["x", 0]},
            {"op": "delete", "pid": 0}, {"op": "delete", "pid": 1},
            {"op": "div", "c": 0, "ckalgo": "sha256", "ck": "wrong", "size": "ok"},
            {"op": "div", "c": 0, "ckalgo": "sha224", "ck": "upper", "size": "ok"},
        ]
    return [
        {"op": "smeta", "pid": 0, "fmt": None, "m": 0}, {"op": "smeta", "pid": 0, "fmt": 0, "m": 1},
        {"op": "smeta", "pid": 0, "fmt": 1, "m": 2}, {"op": "smeta", "pid": 1, "fmt": 2, "m": 0},
        {"op": "smeta", "pid": 1, "fmt": None, "m": 2},
        {"op": "dmeta", "pid": 0, "fmt": None}, {"op": "dmeta", "pid": 0, "fmt": 1}, {"op": "dmeta", "pid": 1, "fmt": 2},
        {"op": "delete", "pid": 0}, _st(0, 0), {"op": "restart"},
    ]


def seq_enum_header(family):
    cfg = gen_cfg(None, simple=True)
    # pids "ab" / "a" with formats "c" / "bc": pid+format concatenations coincide
    return {"seed": 0, "engine": "seq", "prof": "enum", "cfg": cfg,
            "knobs": {"blksize": None, "write_through": False, "shuffle_listdir": True, "mp": False},
            "pids": ["a", "ab"] if family == "obj" else ["ab", "a"],
            "formats": [cfg["store_metadata_namespace"], "c", "bc"],
            "contents": [[4, 3], [9, 7]], "mcontents": [[5, 1], [0, 0], [12, 2]]}


def seq_enum_programs(family, max_len):
    import itertools
    menu = seq_enum_menu(family)
    for n in range(1, max_len + 1):
        for combo in itertools.product(range(len(menu)), repeat=n):
            yield combo, [dict(menu[i]) for i in combo]
