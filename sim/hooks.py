"""Special operations of SEQ histories: rejected calls with a full directory snapshot before and
after (C17), reopening with another configuration (C14), the two-world convergence rule (C19),
and the identifier access monitor (C18)."""

import os
import re
import shutil

from . import seam
from . import world as W
from . import model as M
from .engines import _jsonable, _alpha_key, _expsig, _outsig
from . import cfgspace


# -- C17 ---------------------------------------------------------------------------------------

def hook_raw(eng, i, op):
    """A call that must be rejected for its arguments: documented class, store unchanged."""
    w = eng.world
    before = W.snapshot(w.store_root)
    mark = len(w.run.log)
    out, extra = w.exec_op(op)
    after = W.snapshot(w.store_root)
    muts = [e.brief() for e in w.run.log[mark:] if e.kind in seam.MUTATING and e.cls not in ("input", "sandbox")]
    eng.res.flags.add("raw:" + op["method"])
    eng.res.flags.add("rejected-call")
    if muts:
        eng.res.flags.add("rejected-call-touched-disk")
    eng.res.trace.append({"i": i, "op": op, "out": [out[0], _jsonable(out[1])]})
    if op.get("conditional") and out[0] == "ok":
        # accepted: then it must have had exactly the effect of the call without the extra arguments
        eng.res.flags.discard("rejected-call")
        if "stores_content" in op:
            eng.model.objs.add(eng.model.cid_of(w.contents[op["stores_content"]]))
        eng.check_state(op, None, i)
        return
    if after != before:
        diff = sorted(set(after.items()) ^ set(before.items()))[:6]
        eng.violation({"C17"}, "rejected-changed", "rejected-changed:%s" % op["method"],
                      {"op": op, "outcome": [out[0], _jsonable(out[1])], "diff": diff, "mutating_events": muts[:8]}, i)
        return
    if op.get("conditional"):
        return
    if out[0] != "exc" or out[1] not in op["expect"]:
        eng.violation({"C17"}, "rejected-class", "rejected-class:%s:%s->%s" % (
            op["method"], "|".join(op["expect"]), _outsig(out)),
            {"op": op, "outcome": [out[0], _jsonable(out[1])], "msg": extra.get("msg")}, i)


def wrap_readonly(eng, i, op):
    """Successful (or failing) read-only calls change nothing (C17)."""
    w = eng.world
    before = W.snapshot(w.store_root)
    exp = eng.model.apply(op)
    out, extra = w.exec_op(op)
    after = W.snapshot(w.store_root)
    eng.res.flags.add("readonly-call")
    eng.res.flags.add("op:" + op["op"])
    if after != before:
        diff = sorted(set(after.items()) ^ set(before.items()))[:6]
        eng.violation({"C17"}, "readonly-changed", "readonly-changed:%s" % op["op"],
                      {"op": op, "outcome": [out[0], _jsonable(out[1])], "diff": diff}, i)
        return
    if not exp.matches(out):
        from .engines import classify_outcome
        eng.violation(classify_outcome(op, exp, out, w.mp), "outcome",
                      "outcome:%s:%s->%s" % (op["op"], _expsig(exp), _outsig(out)),
                      {"op": op, "expected": exp.describe(), "got": [out[0], _jsonable(out[1])]}, i)


# -- C14 ---------------------------------------------------------------------------------------

def hook_reopen(eng, i, op):
    w = eng.world
    cfg = op["cfg"]
    expect = op["expect"]  # "accept" | "reject"
    lose = op.get("lose_yaml")
    yaml_path = os.path.join(w.store_root, "hashstore.yaml")
    saved = None
    if lose:
        with seam.passthrough():
            saved = W._read(yaml_path)
            os.remove(yaml_path)
    before = W.snapshot(w.store_root)
    mark = len(w.run.log)
    old_store = w.store
    try:
        try:
            w.open_store(cfg)
            out = ("ok", None)
        except Exception as e:
            out = ("exc", type(e).__name__)
            w.store = old_store
        after = W.snapshot(w.store_root)
        muts = [e.brief() for e in w.run.log[mark:] if e.kind in seam.MUTATING]
        eng.res.flags.add("reopen:" + expect)
        eng.res.flags.add("reopen-kind:" + op.get("kind", "?"))
        eng.res.trace.append({"i": i, "op": op, "out": list(out)})
        if expect == "reject":
            if out[0] == "ok":
                w.store = old_store
                eng.violation({"C14"}, "config", "config:accepted-mismatch:%s" % op.get("kind"),
                              {"op": op, "created_with": w.cfg}, i)
                return
            if after != before or muts:
                diff = sorted(set(after.items()) ^ set(before.items()))[:6]
                eng.violation({"C14"}, "config", "config:refused-but-modified:%s" % op.get("kind"),
                              {"op": op, "diff": diff, "mutating_events": muts[:8]}, i)
                return
        else:
            if out[0] != "ok":
                eng.violation({"C14"}, "config", "config:refused-equal-config:%s:%s" % (op.get("kind"), out[1]),
                              {"op": op, "created_with": w.cfg}, i)
                return
            # all existing data visible and addressed as before: the ordinary state check follows
            n0 = len(eng.res.violations)
            eng.check_state(op, None, i)
            for v in eng.res.violations[n0:]:
                v.props.add("C14")
    finally:
        if saved is not None:
            with seam.passthrough():
                if not os.path.exists(yaml_path):
                    with seam.real_open(yaml_path, "wb") as f:
                        f.write(saved)


def c14_prologue(eng):
    """Before the store exists: creating one with an unsupported algorithm must raise and create
    nothing."""
    w = eng.world
    import random
    r = random.Random("c14pro:%s" % eng.prog.get("seed"))
    for bad in r.sample(cfgspace.UNSUPPORTED_STORE_ALGOS, 3):
        cfg = dict(w.cfg, store_algorithm=bad)
        try:
            w.open_store(cfg)
            out = "ok"
        except Exception as e:
            out = type(e).__name__
        with seam.passthrough():
            exists = os.path.exists(w.store_root)
            leftovers = sorted(os.listdir(w.store_root)) if exists else []
        if out == "ok" or leftovers:
            eng.violation({"C14"}, "config", "config:create-unsupported-algorithm",
                          {"algorithm": bad, "outcome": out, "leftovers": leftovers}, -1)
            return
        if exists:
            with seam.passthrough():
                shutil.rmtree(w.store_root)
    w.store = None


# -- C19 ---------------------------------------------------------------------------------------

def hook_converge(eng, i, op):
    """Two copies of the current store: one-call procedure on A, step-wise procedure on B."""
    w = eng.world
    sop = op["store"]
    mdl = eng.model
    data = w.contents[sop["c"]]
    pid_i = sop["pid"]
    sz = mdl.size_arg(data, sop.get("size"))
    if sz is not None and sz < 1:
        return  # an expected size of 0 is an argument error, not validation data
    boxes = []
    worlds = []
    try:
        for tag in ("cvA", "cvB"):
            box = W.new_sandbox(tag)
            boxes.append(box)
            with seam.passthrough():
                shutil.copytree(w.store_root, os.path.join(box, "store"), symlinks=True)
            w2 = W.World(eng.prog, sandbox=box)
            worlds.append(w2)
        wa, wb = worlds
        eng.res.flags.add("converge")
        checksum = mdl.checksum_arg(data, sop.get("ck"), sop.get("ckalgo"))
        size = mdl.size_arg(data, sop.get("size"))
        has_val = sop.get("ck") is not None
        # procedure 1
        with seam.activate(wa.run, 0):
            wa.open_store()
            ma = mdl.clone()
            expa = ma.apply(sop)
            outa, exa = wa.exec_op(sop)
            alpha_a = wa.alpha()
            obs_a = _obs(wa)
        # procedure 2
        with seam.activate(wb.run, 0):
            wb.open_store()
            mb = mdl.clone()
            steps = [{"op": "store", "pid": None, "c": sop["c"], "kind": sop.get("kind", "str")}]
            outb = None
            o, e = wb.exec_op(steps[0])
            mb.apply(steps[0])
            ret_b = o
            if o[0] != "ok":
                outb = o
            elif has_val:
                dop = {"op": "div", "c": sop["c"], "ck": sop["ck"], "ckalgo": sop["ckalgo"], "size": sop.get("size")}
                mb.apply(dop)
                o, e = wb.exec_op(dop)
                if o[0] != "ok":
                    outb = o
            if outb is None:
                top = {"op": "tag", "pid": pid_i, "cid": ["c", sop["c"]]}
                mb.apply(top)
                o, e = wb.exec_op(top)
                outb = o if o[0] != "ok" else ret_b
            alpha_b = wb.alpha()
            obs_b = _obs(wb)
        detail = {"store": sop, "one_call": [outa[0], _jsonable(outa[1])], "stepwise": [outb[0], _jsonable(outb[1])]}
        bad = M.Model.verdict(mdl, data, checksum, M.normalise_algo(sop["ckalgo"]) if sop.get("ckalgo") else None, size) \
            if (size is None or size >= 1) else set()
        pid = w.pids[pid_i]
        if bad:
            eng.res.flags.add("converge-invalid")
            # both raise the same kind of mismatch error; neither binds the pid nor disturbs referenced objects
            for name, o in (("one-call", outa), ("stepwise", outb)):
                if o[0] != "exc" or o[1] not in bad:
                    eng.violation({"C19"}, "converge", "converge:invalid-not-rejected:%s:%s" % (name, _outsig(o)),
                                  dict(detail, expected=sorted(bad)), i)
                    return
            if len(bad) == 1 and outa[1] != outb[1]:
                eng.violation({"C19"}, "converge", "converge:different-error-kinds", detail, i)
                return
            pre_obs = dict((k, mdl.op_retrieve({"pid": k})) for k in range(len(w.pids)))
            # a pid that was tagged to this content while its object was absent legitimately sees the
            # object once a procedure has put it in place (it is referenced, hence not removed again)
            m_obj = mdl.clone()
            m_obj.objs.add(mdl.cid_of(data))
            alt_obs = dict((k, m_obj.op_retrieve({"pid": k})) for k in range(len(w.pids)))
            for name, obs in (("one-call", obs_a), ("stepwise", obs_b)):
                for k, exp in pre_obs.items():
                    if not exp.matches(obs[k]) and not alt_obs[k].matches(obs[k]):
                        eng.violation({"C19"}, "converge", "converge:invalid-disturbed:%s" % name,
                                      dict(detail, pid=w.pids[k], got=_jsonable(obs[k]), expected=exp.describe()), i)
                        return
            return
        if outa[0] == "exc" or outb[0] == "exc":
            # e.g. the pid is already bound: both must fail alike (either already-exists class)
            ka = outa[1] if outa[0] == "exc" else "ok"
            kb = outb[1] if outb[0] == "exc" else "ok"
            same = (ka == kb) or (ka in M.ALREADY and kb in M.ALREADY)
            if not same or not expa.matches(outa):
                eng.violation({"C19"}, "converge", "converge:outcomes-differ:%s/%s" % (ka, kb),
                              dict(detail, model=expa.describe()), i)
                return
            eng.res.flags.add("converge-rejected")
        else:
            eng.res.flags.add("converge-valid")
            ra, rb = outa[1], outb[1]
            da = dict((k, v) for k, v in ra["digests"].items() if k in M.DEFAULT_ALGOS)
            db = dict((k, v) for k, v in rb["digests"].items() if k in M.DEFAULT_ALGOS)
            if ra["cid"] != rb["cid"] or ra["size"] != rb["size"] or da != db:
                eng.violation({"C19"}, "converge", "converge:reports-differ", detail, i)
                return
        if _alpha_key(alpha_a) != _alpha_key(alpha_b):
            eng.violation({"C19"}, "converge", "converge:states-differ",
                          dict(detail, a=_jsonable(W.compare_alpha(alpha_a, ma)[:4]),
                               b=_jsonable(W.compare_alpha(alpha_b, mb)[:4])), i)
            return
        if obs_a != obs_b:
            eng.violation({"C19"}, "converge", "converge:lookups-differ", detail, i)
    finally:
        with seam.passthrough():
            for b in boxes:
                shutil.rmtree(b, ignore_errors=True)


def _obs(w):
    return dict((k, w.exec_op({"op": "retrieve", "pid": k})[0]) for k in range(len(w.pids)))


# -- C18 ---------------------------------------------------------------------------------------

_HEX = re.compile(r"^[0-9a-fA-F]+(_delete)?$")  # either case: tag_object takes the cid as the caller spells it
_TMP = re.compile(r"^(tmp)?[0-9a-zA-Z_]+$")


class AccessMonitor(object):
    """Seam observer: learns which pid-reference file / metadata document belongs to which
    identifier when it is created, and reports (a) a path that two different identifiers map to
    (aliasing), (b) a call on identifier X touching a file that belongs to an unrelated identifier,
    (c) a created path that is not derived from hashes only."""

    def __init__(self, eng):
        self.eng = eng
        self.owner = {}  # rel path -> ("pid", pid) | ("doc", pid, fmt)
        self.subject = None  # (pid, fmt or None, kind of call)
        self.problem = None
        self.checked = 0

    def begin(self, op, world):
        name = op.get("op")
        if op.get("pid") is None or name in ("restart",):
            self.subject = None
            return
        pid = world.pids[op["pid"]]
        fmt = None
        if name in ("smeta", "rmeta", "dmeta"):
            fmt = "*" if (name == "dmeta" and op.get("fmt") is None) else \
                (world.cfg["store_metadata_namespace"] if op.get("fmt") is None else world.formats[op["fmt"]])
        self.subject = (pid, fmt, name)

    def end(self):
        self.subject = None

    def __call__(self, run, ev):
        if self.problem is not None or ev.rel is None:
            return
        if ev.kind == "probe" or ev.cls in ("input", "sandbox"):
            return
        rel = ev.rel
        parts = rel.split("/")[1:]
        if ev.kind in ("create", "mkdir", "rename") and parts:
            self.checked += 1
            if not self._derived(parts):
                self.problem = ("not-hash-derived", {"path": rel, "event": ev.brief()})
                return
        if self.subject is None:
            return
        pid, fmt, name = self.subject
        if ev.cls in ("refs/pid", "meta/doc") and ev.kind in ("rename", "create"):
            key = ("pid", pid) if ev.cls == "refs/pid" else ("doc", pid, fmt)
            if name in ("store", "tag", "smeta"):
                old = self.owner.get(rel)
                if old is not None and old != key:
                    self.problem = ("alias", {"path": rel, "first": list(old), "second": list(key)})
                    return
                self.owner[rel] = key
        elif ev.cls in ("refs/pid", "meta/doc", "refs/pid~del", "meta/doc~del"):
            base = rel[:-len("_delete")] if rel.endswith("_delete") else rel
            old = self.owner.get(base)
            if old is None:
                return
            if old[1] != pid:
                self.problem = ("foreign-access", {"path": rel, "owner": list(old), "call_on": [pid, fmt, name],
                                                   "event": ev.brief()})
            elif old[0] == "doc" and fmt not in (None, "*") and old[2] != fmt and name in ("smeta", "rmeta", "dmeta"):
                self.problem = ("foreign-access", {"path": rel, "owner": list(old), "call_on": [pid, fmt, name],
                                                   "event": ev.brief()})
            if ev.kind == "remove" and self.problem is None:
                self.owner.pop(base, None)

    @staticmethod
    def _derived(parts):
        top = parts[0]
        if top == "hashstore.yaml":
            return len(parts) == 1
        if top not in ("objects", "metadata", "refs"):
            return False
        rest = parts[1:]
        if top == "refs":
            if not rest:
                return True
            if rest[0] not in ("pids", "cids", "tmp"):
                return False
            if rest[0] == "tmp":
                return all(_TMP.match(x) for x in rest[1:])
            rest = rest[1:]
        elif rest and rest[0] == "tmp":
            return all(_TMP.match(x) for x in rest[1:])
        return all(_HEX.match(x) for x in rest)
