"""Reference model of HashStore: a few maps, no files.  Encodes what the property statements
say, nothing about the on-disk layout.

State
  objs      set of cids whose object is present
  pid2cid   pid -> cid
  cid2pids  cid -> list of pids (in order of binding)
  meta      (pid, resolved format) -> bytes

Every operation is a total function  state x op -> Expect(outcome set), state'.
"""

import hashlib

DEFAULT_ALGOS = ["md5", "sha1", "sha256", "sha384", "sha512"]
OTHER_ALGOS = ["sha224", "sha3_224", "sha3_256", "sha3_384", "sha3_512", "blake2b", "blake2s"]
ALL_ALGOS = DEFAULT_ALGOS + OTHER_ALGOS
STORE_ALGOS = {"MD5": "md5", "SHA-1": "sha1", "SHA-256": "sha256", "SHA-384": "sha384",
               "SHA-512": "sha512"}

ALREADY = frozenset(["HashStoreRefsAlreadyExists", "PidRefsAlreadyExistsError"])


def normalise_algo(s):
    """Independent statement of the documented spelling rule: case-insensitive; for the SHA-3
    family (names with more than three digits) '-' and '_' are interchangeable separators; for
    all other names separators are ignored.  Returns the canonical name or None."""
    if not isinstance(s, str):
        return None
    digits = sum(1 for ch in s if ch.isdigit())
    low = s.lower()
    if digits > 3:
        c = low.replace("-", "_")
    else:
        c = low.replace("-", "").replace("_", "")
    return c if c in ALL_ALGOS else None


def has_ws(s):
    return s is None or not isinstance(s, str) or s.strip() == "" or any(ch.isspace() for ch in s)


def digest(algo, data):
    return hashlib.new(algo, data).hexdigest()


class Expect(object):
    """Acceptable outcomes of one call: ``ok`` (a payload dict / value / True for 'any normal
    return') and/or a set of exception class names."""

    def __init__(self, ok=None, excs=(), has_ok=None, note=None, weak=False):
        self.ok = ok
        self.has_ok = (ok is not None) if has_ok is None else has_ok
        self.excs = frozenset(excs)
        self.note = note
        self.weak = weak  # weak oracle: outcome not pinned down, only "nothing else changes"

    def matches(self, outcome):
        kind, val = outcome
        if self.weak:
            return True
        if kind == "exc":
            return val in self.excs
        if not self.has_ok:
            return False
        if self.ok is True:
            return True
        return self.ok == val

    def describe(self):
        d = {}
        if self.has_ok:
            d["ok"] = _short(self.ok)
        if self.excs:
            d["excs"] = sorted(self.excs)
        if self.weak:
            d["weak"] = True
        return d


def _short(v):
    if isinstance(v, (bytes, bytearray)):
        return "bytes[%d]:%s" % (len(v), hashlib.sha1(v).hexdigest()[:10])
    if isinstance(v, dict):
        return dict((k, _short(x)) for k, x in v.items())
    return v


def encodable(s):
    try:
        s.encode("utf8")
        return True
    except UnicodeEncodeError:
        return False


BAD_PID = "\udcff-not-utf8"


class Model(object):
    def __init__(self, store_algo, default_ns, contents, pids, formats, mcontents=None):
        self.algo = STORE_ALGOS[store_algo]
        self.ns = default_ns
        self.contents = contents  # list of bytes
        self.pids = pids
        self.formats = formats
        self.mcontents = mcontents or contents
        self.objs = set()
        self.pid2cid = {}
        self.cid2pids = {}
        self.meta = {}
        self.cid_bytes = {}  # cid -> bytes for every content of the alphabet
        for c in contents:
            self.cid_bytes[self.cid_of(c)] = c

    def clone(self):
        m = Model.__new__(Model)
        m.__dict__.update(self.__dict__)
        m.objs = set(self.objs)
        m.pid2cid = dict(self.pid2cid)
        m.cid2pids = dict((k, list(v)) for k, v in self.cid2pids.items())
        m.meta = dict(self.meta)
        return m

    def state(self):
        return {
            "objs": sorted(self.objs),
            "pid2cid": dict(self.pid2cid),
            "cid2pids": dict((k, sorted(v)) for k, v in self.cid2pids.items()),
            "meta": dict(self.meta),
        }

    def state_key(self):
        s = self.state()
        return repr((s["objs"], sorted(s["pid2cid"].items()), sorted(s["cid2pids"].items()),
                     sorted((k, hashlib.sha1(v).hexdigest()) for k, v in s["meta"].items())))

    # -- helpers -----------------------------------------------------------------------------
    def cid_of(self, data):
        return digest(self.algo, data)

    def resolve_cid(self, ref):
        """cid reference of a tag/div op: ["c", i] = cid of content i; ["x", k] = a well-formed
        cid that no content of the alphabet has."""
        if ref[0] == "c":
            return self.cid_of(self.contents[ref[1]])
        if ref[0] == "C":
            # the same digest spelled in upper case: a DIFFERENT cid string for the store
            return self.cid_of(self.contents[ref[1]]).upper()
        return digest(self.algo, b"never-stored-%d" % ref[1])

    def fmt(self, f):
        return self.ns if f is None else f

    def checksum_arg(self, data, ck, algo_spelling):
        """The checksum string an op supplies."""
        if ck is None:
            return None
        canon = normalise_algo(algo_spelling) if algo_spelling is not None else None
        if canon is None:
            canon = "sha256"
        true = digest(canon, data)
        if ck == "ok":
            return true
        if ck == "upper":
            return true.upper()
        if ck == "mixed":
            return "".join(ch.upper() if i % 2 else ch for i, ch in enumerate(true))
        if ck == "wrong":
            return digest(canon, data + b"x")
        if ck == "wronglen":
            return true[:-2]
        if ck == "wrongcase":  # wrong value in upper case
            return digest(canon, data + b"x").upper()
        if ck == "wrong-nonascii":  # the true digest with one look-alike character (Cyrillic a / e-acute): a wrong value
            return true[:3] + ("\u0430" if true[3] != "a" else "\u00e9") + true[4:]
        raise ValueError(ck)

    def size_arg(self, data, sz):
        if sz is None:
            return None
        if sz == "ok":
            return len(data)
        if sz == "wrong":
            return len(data) + 1
        if sz == "wrong-":
            return max(len(data) - 1, 1) if len(data) != 1 else 2
        return sz  # literal

    # -- verdict (C06) -----------------------------------------------------------------------
    def verdict(self, data, checksum, canon_algo, size):
        """Set of acceptable mismatch errors; empty set = valid."""
        bad = set()
        if size is not None and size != len(data):
            bad.add("NonMatchingObjSize")
        if checksum is not None and canon_algo is not None:
            if checksum.lower() != digest(canon_algo, data):
                bad.add("NonMatchingChecksum")
        return bad

    # -- operations ---------------------------------------------------------------------------
    def apply(self, op):
        pi = op.get("pid")
        if pi is not None and op["op"] in ("store", "tag", "delete", "retrieve", "hexdigest", "smeta", "rmeta", "dmeta") \
                and not encodable(self.pids[pi]):
            return self._unencodable(op)
        return getattr(self, "op_" + op["op"])(op)

    def _unencodable(self, op):
        """A pid that cannot be encoded as UTF-8 (a lone surrogate, e.g. from os.fsdecode of a non-UTF-8 file
        name) passes the string checks and fails when its hash is taken: every call on it raises
        UnicodeEncodeError and binds nothing.  store_object has stored the object by then (an unreferenced object,
        as after any store whose tagging is refused).  Generators only issue plain calls on such a pid (no
        validation arguments, existing data), so no other rejection takes precedence."""
        if op["op"] == "store":
            self.objs.add(self.cid_of(self.contents[op["c"]]))
        return Expect(excs=["UnicodeEncodeError"])

    def _digest_map(self, data, add, ckalgo):
        keys = list(DEFAULT_ALGOS)
        for a in (ckalgo, add):
            if a is not None:
                c = normalise_algo(a)
                if c is not None and c not in keys:
                    keys.append(c)
        return dict((k, digest(k, data)) for k in keys)

    MISSING_FILE = ("ValueError", "FileNotFoundError", "TypeError")

    def op_store(self, op):
        data = self.contents[op["c"]]
        pid = None if op.get("pid") is None else self.pids[op["pid"]]
        cid = self.cid_of(data)
        if op.get("kind") == "missing":
            # the data argument names no file: an argument error, nothing changes
            sz = self.size_arg(data, op.get("size"))
            if pid is not None and sz is not None and sz < 1:
                return Expect(excs=["ValueError"])
            if pid is not None and op.get("add") is not None and normalise_algo(op["add"]) is None:
                return Expect(excs=["UnsupportedAlgorithm"])
            if pid is not None and (op.get("ck") is None) != (op.get("ckalgo") is None):
                return Expect(excs=["ValueError"])
            if pid is not None and op.get("ckalgo") is not None and normalise_algo(op["ckalgo"]) is None:
                return Expect(excs=["UnsupportedAlgorithm"])
            return Expect(excs=self.MISSING_FILE)
        if pid is None:
            self.objs.add(cid)
            return Expect(ok={"pid": "HashStoreNoPid", "cid": cid, "size": len(data),
                              "digests": self._digest_map(data, None, None)})
        add = op.get("add")
        ckalgo = op.get("ckalgo")
        checksum = self.checksum_arg(data, op.get("ck"), ckalgo)
        size = self.size_arg(data, op.get("size"))
        # argument errors (C17) come first and change nothing
        if size is not None and size < 1:
            return Expect(excs=["ValueError"])
        if add is not None and normalise_algo(add) is None:
            return Expect(excs=["UnsupportedAlgorithm"])
        if (checksum is None) != (ckalgo is None):
            return Expect(excs=["ValueError"])
        if ckalgo is not None and normalise_algo(ckalgo) is None:
            return Expect(excs=["UnsupportedAlgorithm"])
        canon = normalise_algo(ckalgo) if ckalgo is not None else None
        bad = self.verdict(data, checksum, canon, size)
        if bad:
            return Expect(excs=bad)
        # valid: the object is in place before tagging is attempted
        self.objs.add(cid)
        if pid in self.pid2cid:
            return Expect(excs=ALREADY)
        self.pid2cid[pid] = cid
        self.cid2pids.setdefault(cid, []).append(pid)
        return Expect(ok={"pid": pid, "cid": cid, "size": len(data),
                          "digests": self._digest_map(data, add, ckalgo)})

    def op_tag(self, op):
        pid = self.pids[op["pid"]]
        cid = self.resolve_cid(op["cid"])
        if pid in self.pid2cid:
            return Expect(excs=ALREADY)
        self.pid2cid[pid] = cid
        self.cid2pids.setdefault(cid, []).append(pid)
        return Expect(ok="none")

    def op_delete(self, op):
        pid = self.pids[op["pid"]]
        if pid not in self.pid2cid:
            return Expect(excs=["PidRefsDoesNotExist"])
        cid = self.pid2cid.pop(pid)
        lst = self.cid2pids.get(cid, [])
        if pid in lst:
            lst.remove(pid)
        if not lst:
            self.cid2pids.pop(cid, None)
            self.objs.discard(cid)
        if not op.get("nometa"):
            for k in [k for k in self.meta if k[0] == pid]:
                del self.meta[k]
        return Expect(ok="none")

    def op_div(self, op):
        """delete_if_invalid_object(metadata of content c, checksum, algorithm, size)."""
        data = self.contents[op["c"]]
        cid = self.cid_of(data)
        algo = op["ckalgo"]
        canon = normalise_algo(algo)
        size = self.size_arg(data, op.get("size"))
        if size is not None and size < 1:
            return Expect(excs=["ValueError"])
        if canon is None:
            return Expect(excs=["UnsupportedAlgorithm"])
        checksum = self.checksum_arg(data, op["ck"], algo)
        bad = self.verdict(data, checksum, canon, size)
        if cid not in self.objs:
            # stale metadata: the properties speak about stored objects; weak oracle
            return Expect(weak=True, note="stale-metadata")
        if bad:
            if cid not in self.cid2pids:
                self.objs.discard(cid)
            return Expect(excs=bad)
        return Expect(ok="none")

    def op_retrieve(self, op):
        pid = self.pids[op["pid"]]
        if not encodable(pid):
            return Expect(excs=["UnicodeEncodeError"])
        if pid not in self.pid2cid:
            return Expect(excs=["PidRefsDoesNotExist"])
        cid = self.pid2cid[pid]
        if cid not in self.objs:
            return Expect(excs=["RefsFileExistsButCidObjMissing"])
        return Expect(ok=self.cid_bytes[cid])

    def op_hexdigest(self, op):
        pid = self.pids[op["pid"]]
        canon = normalise_algo(op["algo"])
        if canon is None:
            return Expect(excs=["UnsupportedAlgorithm"])
        if pid not in self.pid2cid:
            return Expect(excs=["PidRefsDoesNotExist"])
        cid = self.pid2cid[pid]
        if cid not in self.objs:
            return Expect(excs=["RefsFileExistsButCidObjMissing"])
        return Expect(ok=digest(canon, self.cid_bytes[cid]))

    def op_smeta(self, op):
        pid = self.pids[op["pid"]]
        f = self.fmt(None if op.get("fmt") is None else self.formats[op["fmt"]])
        if op.get("kind") == "missing":
            return Expect(excs=self.MISSING_FILE)
        self.meta[(pid, f)] = self.mcontents[op["m"]]
        return Expect(ok=True)

    def op_rmeta(self, op):
        pid = self.pids[op["pid"]]
        if not encodable(pid):
            return Expect(excs=["UnicodeEncodeError"])
        f = self.fmt(None if op.get("fmt") is None else self.formats[op["fmt"]])
        if (pid, f) not in self.meta:
            return Expect(excs=["ValueError"])
        return Expect(ok=self.meta[(pid, f)])

    def op_dmeta(self, op):
        pid = self.pids[op["pid"]]
        if op.get("fmt") is None:
            for k in [k for k in self.meta if k[0] == pid]:
                del self.meta[k]
        else:
            self.meta.pop((pid, self.formats[op["fmt"]]), None)
        return Expect(ok="none")

    def op_restart(self, op):
        return Expect(ok="none")

    # reader tasks / invalid calls are handled by the engines (they do not change the model)
