"""Registration of the claimed properties (see DESIGN.md section 4)."""

from .registry import register, SeqPart

COMMON_ASSUME = [
    "the kernel file system (tmpfs sandbox) and CPython's os/io/shutil/tempfile/pathlib are correct",
    "the reference model (sim/model.py, ~250 lines) states the property correctly",
    "a clean batch is evidence over the seeded sample, not proof",
]

SEQ_RULE = SeqPart.rule

register("C01", "exploration",
         SEQ_RULE + "; focus = a store_object with a stream / Path / str data argument followed by retrievals",
         COMMON_ASSUME + ["contents <= 64 KiB; st_blksize knob 1..8192 stands for the file system's block size"],
         30, 420,
         [SeqPart("C01", focus=["kind:file", "kind:mem", "kind:bytesio", "kind:bufreader", "kind:path", "kind:str"])])

register("C02", "exploration",
         SEQ_RULE + "; focus = store_object naming an additional/checksum algorithm or get_hex_digest",
         COMMON_ASSUME + ["accepted spellings = strings the documented normalisation rule maps to a supported name"],
         30, 420,
         [SeqPart("C02", focus=["algo-arg", "op:hexdigest"])])

register("C03", "exploration",
         SEQ_RULE + "; focus = a store_object/tag_object on an already bound pid (rejected re-bind)",
         COMMON_ASSUME + ["either documented already-exists class (HashStoreRefsAlreadyExists / "
                          "PidRefsAlreadyExistsError) counts as the rejection"],
         30, 420,
         [SeqPart("C03", focus=["rebind-rejected"])])

register("C04", "exploration",
         SEQ_RULE + "; focus = a successful delete_object or a delete_if_invalid_object in a history with shared content",
         COMMON_ASSUME, 30, 420,
         [SeqPart("C04", focus=["delete-ok", "div"])])

register("C05", "exploration",
         SEQ_RULE + "; focus = any reference-changing call (tag/delete/store with pid)",
         COMMON_ASSUME, 30, 420,
         [SeqPart("C05", focus=["op:tag", "delete-ok", "op:store"])])

register("C06", "exploration",
         SEQ_RULE + "; focus = a store_object with validation data or a delete_if_invalid_object",
         COMMON_ASSUME + ["expected size 0 is an argument error, not a verdict",
                          "delete_if_invalid_object on ObjectMetadata whose object is gone: weak oracle only"],
         30, 420,
         [SeqPart("C06", focus=["validated-store", "div"])])

register("C11", "exploration",
         SEQ_RULE + "; focus = a metadata call",
         COMMON_ASSUME, 30, 420,
         [SeqPart("C11", focus=["meta"])])

register("C16", "exploration",
         SEQ_RULE + "; every history runs in multiprocessing mode (USE_MULTIPROCESSING=True, simulated "
         "multiprocessing primitives) and any disagreement is re-run in threading mode: only a difference "
         "between the modes counts",
         COMMON_ASSUME + ["contention among real OS-scheduled forked processes is outside the simulator; "
                          "processes are simulated tasks with fork-views of the store"],
         30, 420,
         [SeqPart("C16", mp=True, name="seq-mp", focus=["op:store", "op:tag", "delete-ok", "meta"])])
