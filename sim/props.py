"""Registration of the claimed properties (see DESIGN.md section 4)."""

from .registry import register, SeqPart, SeqEnumPart, SeqIPart, ConcPart, ConcPairsPart, ConcCrashPart, SingleSweepPart, SingleRandomPart

def _raw_hooks(prog):
    """Rejected calls (invalid-argument grammar) may appear in any history: "calls made earlier on the
    same instance" include the ones that were refused."""
    from . import hooks as H
    return {"raw": H.hook_raw}


COMMON_ASSUME = [
    "the kernel file system (tmpfs sandbox) and CPython's os/io/shutil/tempfile/pathlib are correct",
    "the reference model (sim/model.py, ~250 lines) states the property correctly",
    "a clean batch is evidence over the seeded sample, not proof",
]

SEQ_RULE = SeqPart.rule

register("C01", "exploration",
         SEQ_RULE + "; focus = a store_object with a stream / Path / str data argument followed by retrievals",
         COMMON_ASSUME + ["contents <= 64 KiB; st_blksize knob 1..8192 stands for the file system's block size"],
         30, 420,
         [SeqPart("C01", focus=["kind:file", "kind:mem", "kind:bytesio", "kind:bufreader", "kind:path", "kind:str"])])

register("C02", "exploration",
         SEQ_RULE + "; focus = store_object naming an additional/checksum algorithm or get_hex_digest. Second part "
         "(conc-algo): the C07 multi-task scenarios with additional / checksum algorithms on every store_object; a "
         "history that is linearizable except for a reported digest map belongs to C02 (the map must not depend on "
         "what another thread did)",
         COMMON_ASSUME + ["accepted spellings = strings the documented normalisation rule maps to a supported name"],
         45, 480,
         [SeqPart("C02", focus=["algo-arg", "op:hexdigest"], weight=2.0, hooks=_raw_hooks),
          ConcPart("C02", "objalgo", name="conc-algo", weight=1.0)])

register("C03", "exploration",
         SEQ_RULE + "; focus = a store_object/tag_object on an already bound pid (rejected re-bind)",
         COMMON_ASSUME + ["either documented already-exists class (HashStoreRefsAlreadyExists / "
                          "PidRefsAlreadyExistsError) counts as the rejection"],
         45, 480,
         [SeqEnumPart("C03", "obj", "seq-enum", focus=["rebind-rejected"]),
          SeqPart("C03", focus=["rebind-rejected"], weight=2.5, hooks=_raw_hooks),
          ConcPart("C03", "obj", name="conc-obj", weight=1.0, mp="mixed")])

register("C04", "exploration",
         SEQ_RULE + "; focus = a successful delete_object or a delete_if_invalid_object in a history with shared content",
         COMMON_ASSUME, 45, 480,
         [SeqEnumPart("C04", "obj", "seq-enum", focus=["delete-ok", "div"]),
          SeqPart("C04", focus=["delete-ok", "div"], weight=2.5),
          ConcPart("C04", "obj", name="conc-obj", weight=1.0, mp="mixed")])

register("C05", "exploration",
         SEQ_RULE + "; focus = any reference-changing call (tag/delete/store with pid)",
         COMMON_ASSUME, 45, 480,
         [SeqEnumPart("C05", "obj", "seq-enum"), SeqPart("C05", focus=["op:tag", "delete-ok", "op:store"], weight=2.5, hooks=_raw_hooks),
          ConcPart("C05", "obj", name="conc-obj", weight=1.0, mp="mixed")])

register("C06", "exploration",
         SEQ_RULE + "; focus = a store_object with validation data or a delete_if_invalid_object. Part div-under-fault: "
         "delete_if_invalid_object with correct / incorrect expectations while one I/O error is injected (FAULT engine): "
         "with correct expectations the call may fail with the error but must not answer with a mismatch class nor remove the object",
         COMMON_ASSUME + ["expected size 0 is an argument error, not a verdict",
                          "delete_if_invalid_object on ObjectMetadata whose object is gone: weak oracle only"],
         30, 420,
         [SeqPart("C06", focus=["validated-store", "div"], hooks=_raw_hooks),
          SingleRandomPart("C06", "FAULT", "div-under-fault", weight=0.25, kinds="ext", only="div")])

register("C11", "exploration",
         SEQ_RULE + "; focus = a metadata call",
         COMMON_ASSUME, 45, 480,
         [SeqEnumPart("C11", "meta", "seq-enum", focus=["meta"]), SeqPart("C11", focus=["meta"], weight=2.5, hooks=_raw_hooks),
          ConcPart("C11", "metax", name="conc-collide", weight=1.0)])

register("C16", "exploration",
         "three parts: (seq-mp) " + SEQ_RULE + "; every history runs in multiprocessing mode (USE_MULTIPROCESSING=True, simulated "
         "multiprocessing primitives) and any disagreement is re-run in threading mode: only a difference "
         "between the modes counts; (conc-mp-obj, conc-mp-meta) the C07 / C12 scenarios with USE_MULTIPROCESSING=True: "
         "tasks stand for forked processes (fork-view of the store object, shared simulated mp primitives, every "
         "manager-list operation a yield point, PRNG-chosen wake-ups), oracles of C07/C12/C08; (fault-sweep-mp, "
         "fault-random-mp) the single-fault runs of C13 in multiprocessing mode, any disagreement re-run in threading "
         "mode (error and roll-back paths of the multiprocessing twins)",
         COMMON_ASSUME + ["contention among real OS-scheduled forked processes is outside the simulator; "
                          "processes are simulated tasks with fork-views of the store"],
         60, 600,
         [SeqPart("C16", mp=True, name="seq-mp", focus=["op:store", "op:tag", "delete-ok", "meta"], weight=0.7),
          ConcPart("C16", "obj", mp=True, name="conc-mp-obj", weight=1.6),
          ConcPart("C16", "meta", mp=True, name="conc-mp-meta", weight=0.8),
          SingleSweepPart("C16", "FAULT", "fault-sweep-mp", errnos=("EIO",), modes=(False, True), weight=0.4,
                          knob_sets=[dict(mp=True)]),
          SingleRandomPart("C16", "FAULT", "fault-random-mp", weight=0.3, mp=True)])

CONC_RULE = ConcPart.rule

register("C07", "exploration", CONC_RULE,
         COMMON_ASSUME + ["granularity = file-system call and lock operation (what the property names); "
                          "StoreObjectForPidAlreadyInProgress accepted when a concurrent store_object or "
                          "delete_object owns the pid; <= 4 tasks, <= 8 calls per scenario"],
         90, 600,
         [ConcPairsPart("C07", "obj", "conc-pairs", weight=1.0), ConcPart("C07", "obj", weight=2.0, mp="mixed"),
          ConcPairsPart("C07", "obj", "conc-triples", per_shape=(0, 6), triples=True, weight=0.01)])

register("C12", "exploration", CONC_RULE,
         COMMON_ASSUME + ["a racing reader may report not-found as ValueError or FileNotFoundError"],
         90, 600,
         [ConcPairsPart("C12", "meta", "conc-pairs", weight=1.0), ConcPart("C12", "meta", weight=2.0, mp="mixed"),
          ConcPairsPart("C12", "meta", "conc-triples", per_shape=(0, 8), triples=True, weight=0.01),
          ConcPart("C12", "metax", name="conc-collide", weight=0.5)])

register("C08", "exploration",
         CONC_RULE + "; C08 looks only at: scheduler never ends with a blocked unfinished task (deadlock) nor hits "
         "the step cap, locked-identifier lists empty and every simulated lock free at quiescence, follow-up "
         "delete/store/retrieve on every pid and store/retrieve_metadata on every document complete. The FAULT "
         "runs of C13 (fault-sweep, fault-random) apply the same oracles after an injected I/O error at every fault "
         "site of every single call, and conc-fault-* inject one I/O error somewhere into a multi-task run (only the "
         "liveness oracles apply there)",
         COMMON_ASSUME + ["blocking is simulated: a task that would block is parked by the scheduler, so slow != blocked"],
         60, 600,
         [ConcPairsPart("C08", "obj", "conc-pairs-obj", per_shape=(2, 20), weight=0.8),
          ConcPairsPart("C08", "meta", "conc-pairs-meta", per_shape=(2, 20), weight=0.5),
          ConcPart("C08", "obj", name="conc-obj"), ConcPart("C08", "meta", name="conc-meta", weight=0.7),
          ConcPart("C08", "obj", name="conc-after-crash", crash_setup=True, weight=0.8),
          ConcPart("C08", "obj", name="conc-fault-obj", fault=True, weight=0.8),
          ConcPart("C08", "meta", name="conc-fault-meta", fault=True, weight=0.4),
          SingleSweepPart("C08", "FAULT", "fault-sweep", errnos=("EIO",), weight=1.0),
          SingleRandomPart("C08", "FAULT", "fault-random", weight=0.5)])

register("C13", "fault_enumeration",
         "two parts: a complete sweep of the (start state x call) menu over every fault site (create, open for "
         "writing, open for reading, rename, remove, mkdir, flock) x {one-off, persistent} for EIO (quick: core menu; "
         "thorough: extended menu x EIO/ENOSPC/EACCES), and seeded random (state history, call, configuration, "
         "knobs, site, errno, mode) runs. distinct+non-trivial = distinct (start state, call, site kind, path "
         "class, errno, mode) at which the fault actually fired. conc-fault-* parts: one I/O error injected into a "
         "multi-task run; the call that met it, and every call on the same pid or validating the same content, is "
         "neither judged nor trusted (whole effect or none); all other calls' outcomes and all other pids / documents "
         "read back through the API must be explained by some sequential order ('every other pid's data is untouched')",
         COMMON_ASSUME + ["exactly one injected failure per run; existence probes (stat) are not fault sites",
                          "'persistent' = every later event of the same call on the same target path fails too "
                          "(renaming the failing path away is unaffected)",
                          "a swallowed failure of the final remove of a *_delete marker is residue, not a violation"],
         45, 600,
         [SingleSweepPart("C13", "FAULT", "fault-sweep", errnos=("EIO",), weight=0.5,
                          extended_in=("thorough",)),
          SingleSweepPart("C13", "FAULT", "fault-sweep-errnos", errnos=("ENOSPC", "EACCES"), weight=0.5,
                          extended_in=("thorough",), only_tiers=("thorough",)),
          SingleRandomPart("C13", "FAULT", "fault-random", weight=2.0, mp="mixed"),
          SingleSweepPart("C13", "FAULT", "fault-sweep-mp", errnos=("EIO",), modes=(False, True), weight=0.4,
                          knob_sets=[dict(mp=True)]),
          SingleRandomPart("C13", "FAULT", "fault-random-ext", weight=0.5, kinds="ext"),
          SeqIPart("C13", weight=1.2),
          ConcPart("C13", "obj", name="conc-fault-obj", fault=True, bystander=True, weight=0.8, mp="mixed"),
          ConcPart("C13", "meta", name="conc-fault-meta", fault=True, bystander=True, weight=0.3, mp="mixed")])

register("C10", "fault_enumeration",
         "three parts: complete sweep of the (start state x call) menu with process death before every mutating "
         "seam event (create, open for writing, mkdir, rename, remove, chmod, flock, file write / truncate / close); "
         "seeded random (state history, call, configuration, st_blksize, write-through, crash index, optional second "
         "crash inside the recovery); and a fork cross-check of the crash stub (real fork + os._exit at the same "
         "event, directories compared byte for byte -- selftest.py forkcheck); plus an extension beyond the quantifier "
         "(crash-conc): whole-process death in the middle of a multi-task run. distinct+non-trivial = distinct (start state, call, event "
         "index/kind) at which the process died",
         COMMON_ASSUME + ["process death, not power loss: every completed system call is durable, bytes still in a "
                          "Python buffer are lost (HashStore never calls fsync; no property claims power-loss safety)",
                          "'exactly as before' for other pids is taken at the observable level (bytes, metadata, pid "
                          "reference, membership in the cid list); the shared cid list file itself is legitimately "
                          "edited by the interrupted call"],
         45, 600,
         [SingleSweepPart("C10", "CRASH", "crash-sweep", weight=0.7,
                          knob_sets=[dict(write_through=True, blksize=4)]),
          SingleSweepPart("C10", "CRASH", "crash-sweep-buffered", weight=0.5, only_tiers=("thorough",),
                          knob_sets=[dict(write_through=False), dict(write_through=True, csize=(9000, 20000))]),
          SingleRandomPart("C10", "CRASH", "crash-random", weight=1.5, second=True, mp="mixed"),
          ConcCrashPart("C10", "crash-conc", weight=1.0),
          SeqIPart("C10", weight=1.2)])

register("C09", "fault_enumeration",
         "three parts: (atom-sweep) every (start state, call, knob set) of the menu executed once with the "
         "invariant monitor evaluated at EVERY seam event -- i.e. at every point between two kernel-visible steps, "
         "which is both what a concurrent reader scheduled at that instant and what an inspector after a crash at "
         "that instant sees -- with write-through on/off and single-/multi-buffer contents; (atom-random) the same "
         "for seeded random (state, call, configuration, knobs); (atom-conc) the monitor attached to the C07/C12 "
         "multi-task runs. Invariant: each file at a permanent object address hashes to its name, each metadata "
         "document equals a complete supplied version, each pid reference holds one complete supplied cid. "
         "distinct+non-trivial = distinct (state, call, knobs, set of (event kind, path class) at which a "
         "permanent path had just changed)",
         COMMON_ASSUME + ["cid reference lists are updated in place by design and are not in the statement",
                          "the monitor also runs during calls that meet one injected I/O error (part atom-under-fault), except a failing "
                          "rename: shutil.move then copies into the destination, its documented fall-back, which C09's quantifier "
                          "(points of fault-free calls) does not cover",
                          "an instantaneous look at the directory is the strongest reader (a POSIX reader that already "
                          "opened a file keeps the old inode across rename-replace)"],
         40, 480,
         [SingleSweepPart("C09", "ATOM", "atom-sweep", weight=1.0,
                          knob_sets=[dict(write_through=True, blksize=4), dict(write_through=False),
                                     dict(write_through=True, csize=(9000, 20000)),
                                     dict(write_through=False, csize=(9000, 20000), blksize=512)]),
          SingleRandomPart("C09", "ATOM", "atom-random", weight=1.0),
          ConcPart("C09", "obj", name="atom-conc-obj", atom=True, weight=1.0),
          ConcPart("C09", "meta", name="atom-conc-meta", atom=True, weight=0.7),
          SeqIPart("C09", weight=0.8),
          SingleRandomPart("C09", "FAULT", "atom-under-fault", weight=0.8, kinds="ext", atom=True)])


def _c17_hooks(prog):
    from . import hooks as H
    return {"raw": H.hook_raw}


def _c14_hooks(prog):
    from . import hooks as H
    return {"reopen": H.hook_reopen}


def _c19_hooks(prog):
    from . import hooks as H
    return {"converge": H.hook_converge}


def _c14_prologue(eng):
    from . import hooks as H
    H.c14_prologue(eng)


register("C17", "exploration",
         SEQ_RULE + "; rejected calls are drawn from a grammar of invalid values for every parameter of every public "
         "method (one bad parameter and pairs) and inserted into histories; each is executed between two full "
         "directory snapshots (paths, content hashes, directories) and must raise a documented class; read-only "
         "calls (retrieve_object / retrieve_metadata / get_hex_digest) likewise between snapshots; focus = a rejected call. "
         "SEQ-I part: the read-only look-ups made after every step of an interrupted history (states with half-done "
         "reference files, markers, left-over objects) must not write to the store when they succeed",
         COMMON_ASSUME + ["values whose treatment is not documented (format id '', inner spaces in format ids) are not generated",
                          "for a pair of bad parameters either member's documented class is accepted"],
         30, 420,
         [SeqPart("C17", focus=["rejected-call"], hooks=_c17_hooks, ro_snapshot=True),
          SeqIPart("C17", weight=0.5)])

register("C14", "exploration",
         SEQ_RULE + "; histories contain reopen(cfg') operations: (creation cfg, history, reopening cfg) triples over "
         "depth 1-5, width 1-4, five algorithms + unsupported names/spellings, YAML-hostile namespaces, ints as "
         "strings, missing / None / extra keys, and the fault 'configuration file lost'; refused opens are executed "
         "between two full directory snapshots and must issue no mutating seam event; accepted opens continue the "
         "model conformance on the new instance; prologue: creating a store with an unsupported algorithm creates "
         "nothing; focus = a reopen operation",
         COMMON_ASSUME + ["integer-like floats, depth 0 and depth*width >= digest length are outside the quantifier"],
         30, 420,
         [SeqPart("C14", focus=["reopen:accept", "reopen:reject"], hooks=_c14_hooks, prologue=_c14_prologue)])

register("C18", "exploration",
         SEQ_RULE + "; identifier alphabets come from an adversarial generator (unicode incl. combining / astral, path "
         "separators, '..', leading dots and dashes, shell and glob metacharacters, 1000-9000 character ids, prefix / "
         "suffix / case variants); two seam monitors run during every call: containment (every mutating call must "
         "target a path inside the store root; anything else is refused and recorded) and access isolation (a "
         "pid-reference file or metadata document, attributed to the identifier whose call created it, is never "
         "touched by a call on another identifier, and no two identifiers map to one path); every created path "
         "component must be hex / tmp name / *_delete; focus = a call on an identifier while another identifier "
         "holds data",
         COMMON_ASSUME + ["cids passed to tag_object are well-formed hex (C18 speaks of pid and format strings)",
                          "lone surrogates are not generated (well-formed Unicode)"],
         30, 420,
         [SeqPart("C18", focus=["op:store", "op:smeta", "op:tag"], monitor=True)])

register("C19", "exploration",
         SEQ_RULE + "; at random points of a history the store directory is copied twice, fresh instances are opened, "
         "and store_object(pid, data, checksum, algorithm, size) runs on one copy, store_object(data) -> "
         "delete_if_invalid_object -> tag_object(pid, cid) on the other, with validation data correct / absent / wrong "
         "checksum / wrong size / non-default algorithm; reports and alpha(directory) of the two copies are compared; "
         "focus = a convergence step",
         COMMON_ASSUME + ["when the validation data is wrong the two copies may differ in unreferenced objects (the statement allows it)"],
         30, 420,
         [SeqPart("C19", focus=["converge"], hooks=_c19_hooks)])


def real_mp_part():
    """Not a registered check (real manager processes are outside the simulator's control and were seen to
    fail on their own under load): used by `selftest.py realmp` to validate the multiprocessing stub."""
    return SeqPart("C16", mp=True, name="seq-real-mp", real_mp=True, focus=["op:store", "op:tag", "delete-ok", "meta"])
