"""Which simulator configurations ("parts") decide which property, with budgets, rules and
assumptions.  check.py is generic over this table."""

from . import gen
from . import engines


class Part(object):
    name = "part"
    engine = "SEQ"
    weight = 1.0
    must_complete = False  # True for complete sweeps over a fixed menu
    rule = ""

    def __init__(self, prop):
        self.prop = prop

    def items(self, seed, tier, worker, nworkers):
        """Yield (index, program) for this worker (index = worker mod nworkers)."""
        i = worker
        while True:
            yield i, self.gen(gen.run_seed(seed, self.prop + ":" + self.name, i), tier)
            i += nworkers

    def gen(self, seed, tier):
        raise NotImplementedError

    def run(self, prog):
        raise NotImplementedError

    def key(self, prog, res):
        return None

    def sample(self, prog, res):
        return {"part": self.name, "program": prog, "trace_tail": res.trace[-3:]}


class SeqPart(Part):
    engine = "SEQ"
    name = "seq"
    focus = None  # flags of which at least one must be present for a run to count as non-trivial
    rule = ("SEQ: seeded random API histories (swarm: store configuration, sync mode, st_blksize, "
            "write-through, alphabets, op mix) executed on the real FileHashStore and on the reference "
            "model in lock-step; after every call outcome in model's acceptable set, alpha(directory) == "
            "model state, every pid / (pid,format) looked up through the API. distinct+non-trivial = "
            "distinct program digests that contain >=1 state-changing call and >=1 focus call of the property")

    def __init__(self, prop, prof=None, focus=None, mp=None, name=None, weight=1.0, probes=True,
                 hooks=None):
        Part.__init__(self, prop)
        self.prof = prof or prop
        self.focus = focus
        self.mp = mp
        self.weight = weight
        self.probes = probes
        self.hooks = hooks
        if name:
            self.name = name

    def gen(self, seed, tier):
        return gen.gen_seq_program(seed, self.prof, tier, mp=self.mp)

    def run(self, prog):
        hooks = self.hooks(prog) if callable(self.hooks) else self.hooks
        res = engines.run_seq(prog, probes=self.probes, hooks=hooks)
        if res.violations and prog.get("knobs", {}).get("mp"):
            # C16 is differential: a disagreement seen only in multiprocessing mode belongs to
            # C16 alone; one that the threading mode shows too belongs to the other properties.
            import copy
            p2 = copy.deepcopy(prog)
            p2["knobs"]["mp"] = False
            r2 = engines.run_seq(p2, probes=self.probes, hooks=hooks)
            sigs2 = set((v.sig, v.step) for v in r2.violations)
            for v in res.violations:
                if (v.sig, v.step) in sigs2:
                    v.props.discard("C16")
                else:
                    v.props = set(["C16"])
        return res

    def key(self, prog, res):
        f = res.flags
        changing = any(x in f for x in ("op:store", "op:tag", "op:smeta", "delete-ok"))
        if not changing:
            return None
        if self.focus and not any(x in f for x in self.focus):
            return None
        import json
        return json.dumps(prog, sort_keys=True)

    def sample(self, prog, res):
        return {"part": self.name, "cfg": prog["cfg"], "knobs": prog["knobs"], "pids": prog["pids"],
                "contents": prog["contents"], "ops": prog["ops"][:12], "n_ops": len(prog["ops"]),
                "last_steps": res.trace[-2:]}


class ConcPart(Part):
    engine = "CONC"
    name = "conc"
    rule = ("CONC: sequential set-up history, then 2-4 tasks x 1-2 calls under the seeded baton-passing "
            "scheduler (policy per run: uniform random / PCT d<=3 / bounded pre-emption / probe-biased; wake-up "
            "choice FIFO or PRNG; spurious wake-ups); oracle = a sequential order consistent with per-task "
            "order and real-time precedence whose model execution yields every outcome and the final "
            "alpha(directory); then termination, empty locked lists, follow-up calls. distinct+non-trivial = "
            "distinct partial-order signatures (per path the sequence of (task, op kind)) in which >= 2 tasks "
            "touched a common path")

    def __init__(self, prop, family="obj", mp=False, name=None, weight=1.0):
        Part.__init__(self, prop)
        self.family = family
        self.mp = mp
        self.weight = weight
        if name:
            self.name = name

    def gen(self, seed, tier):
        return gen.gen_conc_program(seed, self.family, tier, mp=self.mp)

    def run(self, prog):
        from . import conc
        res = conc.run_conc(prog)
        if "preempt" not in prog and res.stats.get("preempt") is not None and res.violations:
            # make the failing schedule explicit so that replay / shrinking are pure functions of the file
            prog["preempt"] = res.stats["preempt"]
            prog["knobs"] = dict(prog["knobs"], policy="default")
        # set-up disagreements are not concurrency findings
        res.violations = [v for v in res.violations if "SETUP" not in v.props]
        return res

    def key(self, prog, res):
        if res.stats.get("shared"):
            return res.stats.get("interleaving")
        return None

    def sample(self, prog, res):
        return {"part": self.name, "cfg": prog["cfg"], "knobs": prog["knobs"], "setup": prog["setup"],
                "tasks": prog["tasks"], "pids": prog["pids"], "decisions": res.stats.get("decisions"),
                "switches": res.stats.get("switches")}


_TABLE = {}
_META = {}


def register(prop, level, rule, assumptions, budget_quick, budget_thorough, parts):
    _TABLE[prop] = parts
    _META[prop] = {"level": level, "rule": rule, "assumptions": assumptions,
                   "quick": budget_quick, "thorough": budget_thorough}


def parts(prop):
    _ensure()
    return _TABLE[prop]


def part_by_name(prop, name):
    for p in parts(prop):
        if p.name == name:
            return p
    raise KeyError("no part %s for %s" % (name, prop))


def level(prop):
    _ensure()
    return _META[prop]["level"]


def rule(prop):
    return _META[prop]["rule"]


def assumptions(prop):
    return _META[prop]["assumptions"]


def budget(prop, tier):
    return _META[prop][tier]


_loaded = False


def _ensure():
    global _loaded
    if not _loaded:
        _loaded = True
        from . import props  # noqa: F401  (fills the table)
