"""Which simulator configurations ("parts") decide which property, with budgets, rules and
assumptions.  check.py is generic over this table."""

from . import gen
from . import engines


class Part(object):
    name = "part"
    engine = "SEQ"
    weight = 1.0
    must_complete = False  # True for complete sweeps over a fixed menu
    rule = ""

    def __init__(self, prop):
        self.prop = prop

    def items(self, seed, tier, worker, nworkers):
        """Yield (index, program) for this worker (index = worker mod nworkers)."""
        i = worker
        while True:
            yield i, self.gen(gen.run_seed(seed, self.prop + ":" + self.name, i), tier)
            i += nworkers

    def gen(self, seed, tier):
        raise NotImplementedError

    def run(self, prog):
        raise NotImplementedError

    def key(self, prog, res):
        return None

    def sample(self, prog, res):
        return {"part": self.name, "program": prog, "trace_tail": res.trace[-3:]}


class SeqPart(Part):
    engine = "SEQ"
    name = "seq"
    focus = None  # flags of which at least one must be present for a run to count as non-trivial
    rule = ("SEQ: seeded random API histories (swarm: store configuration, sync mode, st_blksize, "
            "write-through, alphabets, op mix) executed on the real FileHashStore and on the reference "
            "model in lock-step; after every call outcome in model's acceptable set, alpha(directory) == "
            "model state, every pid / (pid,format) looked up through the API. distinct+non-trivial = "
            "distinct program digests that contain >=1 state-changing call and >=1 focus call of the property")

    def __init__(self, prop, prof=None, focus=None, mp=None, name=None, weight=1.0, probes=True,
                 hooks=None, monitor=False, prologue=None, ro_snapshot=False, real_mp=False):
        Part.__init__(self, prop)
        self.prof = prof or prop
        self.focus = focus
        self.mp = mp
        self.weight = weight
        self.probes = probes
        self.hooks = hooks
        self.kw = dict(monitor=monitor, prologue=prologue, ro_snapshot=ro_snapshot, target=prop)
        if name:
            self.name = name

        self.real_mp = real_mp

    def gen(self, seed, tier):
        prog = gen.gen_seq_program(seed, self.prof, tier, mp=self.mp,
                                   length=None if not self.real_mp else 12)
        if self.real_mp:
            prog["knobs"]["real_mp"] = True
            prog["ops"] = [o for o in prog["ops"] if o["op"] != "restart"][:12]
        return prog

    def run(self, prog):
        hooks = self.hooks(prog) if callable(self.hooks) else self.hooks
        res = engines.run_seq(prog, probes=self.probes, hooks=hooks, **self.kw)
        if res.violations and self.prof == "C18" and not any("C18" in v.props for v in res.violations):
            # C18 is differential too: a disagreement that disappears when the same history runs with
            # plain, unrelated identifiers is caused by the identifier strings themselves
            import copy
            p2 = copy.deepcopy(prog)
            p2["pids"] = ["plainid%d" % i for i in range(len(prog["pids"]))]
            p2["formats"] = [prog["formats"][0]] + ["plainfmt%d" % i for i in range(1, len(prog["formats"]))]
            r2 = engines.run_seq(p2, probes=self.probes, hooks=hooks, **self.kw)
            if not r2.violations and not r2.harness_error:
                for v in res.violations:
                    v.props.add("C18")
                    v.detail = dict(v.detail, identifier_dependent=True, pids=prog["pids"], formats=prog["formats"])
        if res.violations and prog.get("knobs", {}).get("mp"):
            # C16 is differential: a disagreement seen only in multiprocessing mode belongs to
            # C16 alone; one that the threading mode shows too belongs to the other properties.
            import copy
            p2 = copy.deepcopy(prog)
            p2["knobs"]["mp"] = False
            r2 = engines.run_seq(p2, probes=self.probes, hooks=hooks, **self.kw)
            sigs2 = set((v.sig, v.step) for v in r2.violations)
            for v in res.violations:
                if (v.sig, v.step) in sigs2:
                    v.props.discard("C16")
                else:
                    v.props = set(["C16"])
        return res

    def key(self, prog, res):
        f = res.flags
        changing = any(x in f for x in ("op:store", "op:tag", "op:smeta", "delete-ok"))
        if not changing:
            return None
        if self.focus and not any(x in f for x in self.focus):
            return None
        import json
        return json.dumps(prog, sort_keys=True)

    def sample(self, prog, res):
        return {"part": self.name, "cfg": prog["cfg"], "knobs": prog["knobs"], "pids": prog["pids"],
                "contents": prog["contents"], "ops": prog["ops"][:12], "n_ops": len(prog["ops"]),
                "last_steps": res.trace[-2:]}


class SeqIPart(Part):
    """Sequential histories with interruptions (process death / injected I/O error) in the middle."""
    engine = "SEQ-I"
    name = "seq-interrupted"
    rule = ("SEQ-I: seeded API histories in which ~30% of the mutating calls are interrupted -- the process dies "
            "before a seeded mutating seam event (a new instance is then opened on what is on disk) or one I/O error "
            "is injected -- and the history goes on from whatever was left behind; the model is re-synchronised from "
            "what the public API shows (itself checked against what C10 / C13 / C09 allow) and from then on every "
            "call outcome and every pid / (pid, format) read back after every step must agree with it. "
            "distinct+non-trivial = distinct programs in which at least one interruption actually fired")

    def __init__(self, prop, weight=1.0, name=None):
        Part.__init__(self, prop)
        self.weight = weight
        if name:
            self.name = name

    def gen(self, seed, tier):
        from . import seqi
        return seqi.gen_seqi_program(seed, tier)

    def run(self, prog):
        from . import seqi
        res = seqi.run_seqi(prog)
        res.violations = [v for v in res.violations if "SETUP" not in v.props]
        return res

    def key(self, prog, res):
        if res.stats.get("faults"):
            import json
            return json.dumps(prog, sort_keys=True)
        return None

    def sample(self, prog, res):
        return {"part": self.name, "cfg": prog["cfg"], "pids": prog["pids"], "ops": prog["ops"][:14],
                "fired": res.stats.get("faults")}


class SeqEnumPart(SeqPart):
    """Every history of up to L calls over a fixed small menu (complete for that menu)."""
    must_complete = True

    def __init__(self, prop, family, name, max_len=(3, 4), weight=0.3, focus=None):
        SeqPart.__init__(self, prop, name=name, weight=weight, focus=focus)
        self.family = family
        self.max_len = max_len
        self.rule = ("SEQ enumeration: EVERY history of length <= %d (quick) / <= %d (thorough) over a %d-call %s menu "
                     "(prefix-related pids, existing / never-stored cids, colliding (pid, format) pairs), same oracles "
                     "as the random histories; complete for that menu" %
                     (max_len[0], max_len[1], len(gen.seq_enum_menu(family)), family))

    def items(self, seed, tier, worker, nworkers):
        L = self.max_len[0] if tier == "quick" else self.max_len[1]
        h = gen.seq_enum_header(self.family)
        n = 0
        for combo, ops in gen.seq_enum_programs(self.family, L):
            if n % nworkers == worker:
                yield n, dict(h, ops=ops, combo=list(combo))
            n += 1


class ConcPart(Part):
    engine = "CONC"
    name = "conc"
    rule = ("CONC: sequential set-up history, then 2-4 tasks x 1-2 calls under the seeded baton-passing "
            "scheduler (policy per run: uniform random / PCT d<=3 / bounded pre-emption / probe-biased / race-directed postponing; wake-up "
            "choice FIFO or PRNG; spurious wake-ups); oracle = a sequential order consistent with per-task "
            "order and real-time precedence whose model execution yields every outcome and the final "
            "alpha(directory); then termination, empty locked lists, follow-up calls. distinct+non-trivial = "
            "distinct partial-order signatures (per path the sequence of (task, op kind)) in which >= 2 tasks "
            "touched a common path")

    def __init__(self, prop, family="obj", mp=False, name=None, weight=1.0, atom=False, fault=False,
                 crash_setup=False, bystander=False):
        Part.__init__(self, prop)
        self.crash_setup = crash_setup
        self.bystander = bystander
        self.family = family
        self.mp = mp
        self.weight = weight
        self.atom = atom
        self.fault = fault
        if name:
            self.name = name

    def gen(self, seed, tier):
        mp = self.mp
        if mp == "mixed":
            import random
            mp = random.Random("cmp:%d" % seed).random() < 0.2
        prog = gen.gen_conc_program(seed, self.family, tier, mp=mp)
        if self.crash_setup:
            # the start state is what INTERRUPTED calls left behind
            import random
            r = random.Random("csetup:%d" % seed)
            npids = len(prog["pids"])
            setup = list(prog["setup"])
            for _ in range(r.randint(1, 3)):
                k = r.random()
                if k < 0.55:
                    op = {"op": "store", "pid": r.randrange(npids), "c": r.randrange(2), "kind": "str"}
                elif k < 0.75:
                    op = {"op": "tag", "pid": r.randrange(npids), "cid": ["c", r.randrange(2)]}
                else:
                    op = {"op": "delete", "pid": r.randrange(npids)}
                op["int"] = {"kind": "crash", "index": r.randrange(0, 14)}
                setup.insert(r.randint(0, len(setup)), op)
            prog["setup"] = setup
            prog["liveness_only"] = True
        if self.fault:
            import random
            r = random.Random("cfault:%d" % seed)
            prog["fault"] = {"index": r.randrange(0, 60), "errno": r.choice(["EIO", "ENOSPC", "EACCES"]),
                             "persistent": r.choice([False, True, "noremove"])}
            if self.bystander:
                prog["bystander"] = True
            if r.random() < 0.6:
                prog["fault"]["directed"] = r.randrange(1 << 30)
        if self.atom:
            prog["atom"] = True
            import random
            r = random.Random("atom:%d" % seed)
            prog["knobs"]["write_through"] = r.random() < 0.6
            if r.random() < 0.5:
                prog["contents"] = [[r.choice([0, 1, 9000, 20000]), 5], [r.choice([3, 4097, 8193]), 6]]
                prog["mcontents"] = [[r.choice([0, 5, 9000]), 1], [r.choice([3, 8200]), 2], [4000 + r.randrange(5000), 3]]
                prog["knobs"]["blksize"] = r.choice([None, 4096, 1024])
        return prog

    def run(self, prog):
        from . import conc
        if self.prop not in ("C08", "C16") and "followups" not in prog["knobs"]:
            prog["knobs"]["followups"] = "cheap"
        f = prog.get("fault")
        if f and f.get("directed") is not None and "preempt" not in prog:
            # conflict-directed fault placement: run the schedule once without the fault, pick the site among the
            # fault sites on paths that several tasks touched, then run the SAME schedule again with the fault there
            scout = dict(prog, scout=True)
            del scout["fault"]
            r0 = conc.run_conc(scout)
            sites = r0.stats.get("shared_fault_sites")
            if r0.harness_error is None and not r0.violations and sites:
                prog["fault"] = dict(f, index=sites[f["directed"] % len(sites)])
                del prog["fault"]["directed"]
                prog["preempt"] = r0.stats.get("preempt") or {}
                prog["knobs"] = dict(prog["knobs"], policy="default")
        res = conc.run_conc(prog)
        if "preempt" not in prog and res.stats.get("preempt") is not None and res.violations:
            # make the failing schedule explicit so that replay / shrinking are pure functions of the file
            prog["preempt"] = res.stats["preempt"]
            prog["knobs"] = dict(prog["knobs"], policy="default")
        # set-up disagreements are not concurrency findings
        res.violations = [v for v in res.violations if "SETUP" not in v.props]
        return res

    def key(self, prog, res):
        if res.stats.get("shared"):
            return res.stats.get("interleaving")
        return None

    def sample(self, prog, res):
        return {"part": self.name, "cfg": prog["cfg"], "knobs": prog["knobs"], "setup": prog["setup"],
                "tasks": prog["tasks"], "pids": prog["pids"], "decisions": res.stats.get("decisions"),
                "switches": res.stats.get("switches")}


class ConcCrashPart(ConcPart):
    """C10 extension: whole-process death in the middle of a multi-task run."""
    engine = "CRASH"

    def __init__(self, prop, name="crash-conc", weight=1.0):
        ConcPart.__init__(self, prop, "obj", name=name, weight=weight)
        self.rule = ("CRASH-in-CONC: 2-3 tasks under the seeded scheduler, the whole process dies before a seeded "
                     "mutating seam event of the concurrent phase; recovery oracle on a new instance for every pid "
                     "(bystanders unchanged; involved pids complete-or-reported; delete_object then store_object "
                     "succeeds). distinct+non-trivial = distinct partial-order signatures up to the crash point")

    def gen(self, seed, tier):
        import random
        prog = gen.gen_conc_program(seed, "obj", tier, mp=False)
        prog["crash"] = {"index": random.Random("cc:%d" % seed).randrange(0, 60)}
        return prog

    def run(self, prog):
        from . import conc
        res = conc.run_conc_crash(prog)
        if res.stats.get("nofire") and not res.harness_error and prog["crash"]["index"] > 0:
            prog["crash"] = {"index": prog["crash"]["index"] // 3}
            res = conc.run_conc_crash(prog)
        if "preempt" not in prog and res.stats.get("preempt") is not None and res.violations:
            prog["preempt"] = res.stats["preempt"]
            prog["knobs"] = dict(prog["knobs"], policy="default")
        return res

    def key(self, prog, res):
        if res.stats.get("nofire"):
            return None
        return (res.stats.get("interleaving"), repr(res.stats.get("site")))

    def sample(self, prog, res):
        return {"part": self.name, "setup": prog["setup"], "tasks": prog["tasks"], "crash": prog["crash"],
                "site": res.stats.get("site")}


class ConcPairsPart(ConcPart):
    """Every unordered pair of the call menu x every start state, k seeded schedules each."""
    must_complete = True

    def __init__(self, prop, family, name, per_shape=(4, 40), mp=False, weight=1.0, atom=False, triples=False):
        ConcPart.__init__(self, prop, family, mp=mp, name=name, weight=weight, atom=atom)
        self.per_shape = per_shape
        self.triples = triples
        self.rule = ("CONC pair sweep: every unordered pair of a %s-call menu x every start state (complete over that "
                     "menu), each under k seeded schedules (k=%d quick, %d thorough; policy, wake-up choice and start "
                     "stagger drawn per schedule). " % (family, per_shape[0], per_shape[1])) + ConcPart.rule

    def items(self, seed, tier, worker, nworkers):
        k = self.per_shape[0] if tier == "quick" else self.per_shape[1]
        shapes = gen.conc_triple_shapes(self.family) if self.triples else gen.conc_pair_shapes(self.family)
        n = 0
        for rep in range(k):
            for si, sh in enumerate(shapes):
                if n % nworkers == worker:
                    prog = gen.gen_conc_pair(gen.run_seed(seed, self.prop + ":" + self.name, n), self.family, sh, mp=self.mp)
                    if self.atom:
                        prog["atom"] = True
                    yield n, prog
                n += 1


class SingleSweepPart(Part):
    """Complete sweep of a fixed menu (start state x call x every site x errno x mode) for the
    single-call engines; quick = core menu, thorough = extended menu."""
    must_complete = True

    def __init__(self, prop, engine, name, errnos=("EIO",), modes=(False, True, "noremove"), weight=1.0,
                 knob_sets=None, extended_in=("thorough",), second=False, kinds="core", only_tiers=None):
        Part.__init__(self, prop)
        self.engine = engine
        self.name = name
        self.errnos = errnos
        self.modes = modes
        self.weight = weight
        self.knob_sets = knob_sets or [dict()]
        self.extended_in = extended_in
        self.second = second
        self.kinds = kinds
        self.only_tiers = only_tiers
        self.rule = self._rule()

    def _rule(self):
        if self.engine == "FAULT":
            return ("FAULT sweep: for every (start state, call) of the menu the fault sites of the call are counted "
                    "on a dry run, then one run per site x errno x {one-off, persistent, persistent-but-unlinkable}: exactly one injected "
                    "OSError per run; oracles: success reported => whole effect; failed store/tag => pid unbound or "
                    "earlier binding intact + immediate retry; failed store_metadata => previous version intact; "
                    "every other pid untouched; nothing left locked; follow-ups complete. distinct+non-trivial = "
                    "distinct (start state, call, site kind, path class, errno, mode) at which the fault fired")
        if self.engine == "CRASH":
            return ("CRASH sweep: for every (start state, call) of the menu, process death before each mutating "
                    "seam event (directory snapshot at that instant, Python buffers lost), then a new instance on "
                    "the snapshot and the recovery oracle (others untouched; interrupted pid complete-or-reported; "
                    "delete_object then store_object succeeds). distinct+non-trivial = distinct (start state, call, "
                    "event index) at which the process died")
        return ("ATOM sweep: every (start state, call, knob set) of the menu executed once with the invariant "
                "monitor evaluated at every seam event (= every point between two kernel-visible steps) and after "
                "the call; distinct+non-trivial = distinct (call, event kind, path class) at which a permanent "
                "path had just changed")

    def _menu(self, tier):
        ext = tier in self.extended_in
        return [(sn, su, cn, c) for sn, su in gen.single_states() for cn, c in gen.single_calls(extended=ext)]

    def _runner(self):
        from . import single
        return {"FAULT": single.run_fault, "CRASH": single.run_crash, "ATOM": single.run_atom}[self.engine]

    def items(self, seed, tier, worker, nworkers):
        run = self._runner()
        n = 0
        if self.only_tiers and tier not in self.only_tiers:
            return
        for ks in self.knob_sets:
            for sn, su, cn, call in self._menu(tier):
                h = gen.single_header(seed=0, **ks)
                base = dict(h, engine=self.engine.lower(), setup=su, call=call, state=sn, callname=cn)
                if self.engine == "ATOM":
                    if n % nworkers == worker:
                        yield n, base
                    n += 1
                    continue
                key = "fault" if self.engine == "FAULT" else "crash"
                dry = run(dict(base, **{key: {"index": 10 ** 9, "kinds": self.kinds}}))
                if dry.harness_error or dry.violations:
                    # report through the normal path
                    if n % nworkers == worker:
                        yield n, dict(base, **{key: {"index": 10 ** 9, "kinds": self.kinds}})
                    n += 1
                    continue
                sites = dry.stats.get("sites", 0)
                for i in range(sites):
                    if self.engine == "CRASH":
                        if n % nworkers == worker:
                            yield n, dict(base, crash={"index": i})
                        n += 1
                        continue
                    for en in self.errnos:
                        for pers in self.modes:
                            if n % nworkers == worker:
                                yield n, dict(base, fault={"index": i, "errno": en, "persistent": pers,
                                                           "kinds": self.kinds})
                            n += 1

    def run(self, prog):
        res = self._runner()(prog)
        res.violations = [v for v in res.violations if "SETUP" not in v.props]
        if res.violations and prog.get("knobs", {}).get("mp"):
            # C16 is differential: the same (state, call, plan) in threading mode decides whether the
            # disagreement is specific to the multiprocessing code paths
            import copy
            p2 = copy.deepcopy(prog)
            p2["knobs"]["mp"] = False
            r2 = self._runner()(p2)
            sigs2 = set(v.sig for v in r2.violations)
            for v in res.violations:
                if v.sig in sigs2:
                    v.props.discard("C16")
                else:
                    # specific to the multiprocessing code paths: C16, and still a violation of the
                    # fault / crash property it was found under (those are stated for both modes)
                    v.props = set(["C16"]) | (v.props & set(["C13", "C10", "C08", "C09"]))
        return res

    def key(self, prog, res):
        if res.stats.get("nofire"):
            return None
        if self.engine == "ATOM":
            cp = res.stats.get("changed_points")
            return (prog.get("state"), prog.get("callname"), repr(prog.get("knobs")), repr(cp)) if cp else None
        site = res.stats.get("site")
        if not site:
            return None
        return (prog.get("state"), prog.get("callname"), repr(sorted(site.items())))

    def sample(self, prog, res):
        return {"part": self.name, "state": prog.get("state"), "setup": prog.get("setup"), "call": prog.get("call"),
                "plan": prog.get("fault") or prog.get("crash"), "site": res.stats.get("site"),
                "flags": sorted(res.flags)}


class SingleRandomPart(SingleSweepPart):
    """Seeded random (start state, call, knobs, site) for the single-call engines."""
    must_complete = False

    def __init__(self, prop, engine, name, weight=1.0, errnos=("EIO", "ENOSPC", "EACCES"), second=False,
                 kinds="core", mp=False, atom=False, only=None):
        SingleSweepPart.__init__(self, prop, engine, name, errnos=errnos, weight=weight, second=second, kinds=kinds)
        self.mp = mp
        self.atom = atom
        self.only = only
        self.rule = self.rule.replace("sweep:", "random:").replace(
            "for every (start state, call) of the menu", "for seeded random (start-state history, call, configuration, "
            "st_blksize, write-through) triples")

    def items(self, seed, tier, worker, nworkers):
        return Part.items(self, seed, tier, worker, nworkers)

    def gen(self, seed, tier):
        import random
        prog = gen.gen_single_random(seed, self.engine.lower(), tier, only=getattr(self, "only", None))
        if getattr(self, "mp", False) == "mixed":
            prog["knobs"]["mp"] = random.Random("mpmix:%d" % seed).random() < 0.3
        elif getattr(self, "mp", False):
            prog["knobs"]["mp"] = True
        rng = random.Random("plan:%d" % seed)
        if self.engine == "FAULT":
            prog["fault"] = {"index": rng.randrange(0, 40), "errno": rng.choice(list(self.errnos)),
                             "persistent": rng.choice([False, True, "noremove"]), "kinds": self.kinds}
            if getattr(self, "atom", False):
                prog["atom"] = True
                # a failing rename makes shutil.move copy into the destination (its documented fall-back): C09
                # quantifies over the points of fault-free calls, so that path is not judged here
                prog["fault"]["exclude"] = ["rename"]
                prog["knobs"]["write_through"] = rng.random() < 0.6
        elif self.engine == "CRASH":
            prog["crash"] = {"index": rng.randrange(0, 40)}
            if self.second and rng.random() < 0.5:
                prog["crash"]["second"] = {"phase": rng.choice(["delete", "store"]), "index": rng.randrange(0, 25)}
        return prog

    def run(self, prog):
        res = SingleSweepPart.run(self, prog)
        if res.stats.get("nofire") and not res.harness_error and self.engine in ("FAULT", "CRASH"):
            # the drawn index was beyond the call's sites: fold it into range and run again
            sites = res.stats.get("sites", 0)
            key = "fault" if self.engine == "FAULT" else "crash"
            if sites > 0:
                prog[key] = dict(prog[key], index=prog[key]["index"] % sites)
                res = SingleSweepPart.run(self, prog)
        return res


_TABLE = {}
_META = {}


def register(prop, level, rule, assumptions, budget_quick, budget_thorough, parts):
    _TABLE[prop] = parts
    _META[prop] = {"level": level, "rule": rule, "assumptions": assumptions,
                   "quick": budget_quick, "thorough": budget_thorough}


def parts(prop):
    _ensure()
    return _TABLE[prop]


def part_by_name(prop, name):
    for p in parts(prop):
        if p.name == name:
            return p
    raise KeyError("no part %s for %s" % (name, prop))


def level(prop):
    _ensure()
    return _META[prop]["level"]


def rule(prop):
    return _META[prop]["rule"]


def assumptions(prop):
    return _META[prop]["assumptions"]


def budget(prop, tier):
    return _META[prop][tier]


_loaded = False


def _ensure():
    global _loaded
    if not _loaded:
        _loaded = True
        from . import props  # noqa: F401  (fills the table)
