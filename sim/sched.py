"""Baton-passing scheduler and the simulated threading / multiprocessing primitives.

Tasks are real threads, but exactly one runs at a time and *who* runs next is decided here, at
every yield point (seam event, lock acquire/release, condition wait/notify, manager-list
operation).  Blocking is simulated: a task that cannot proceed is marked blocked with a readiness
predicate and never enters a real blocking call, so "nobody runnable, somebody unfinished" is a
detected deadlock, not a hang.

A schedule is a dict {decision index -> task id} of *pre-emptions*; the default between
pre-emptions is "keep running the current task if it is runnable, else the runnable task with the
lowest id".  Generation policies (uniform random, PCT, bounded pre-emption, probe-biased) produce
their picks from a seeded PRNG while the run is recorded; what is stored is the resulting
pre-emption dict, so a replay is a pure function of (program, knobs, pre-emptions).
"""

import os
import random
import sys
import threading as _rt  # the real one

from . import seam

STEP_CAP_DEFAULT = 20000


class Deadlock(Exception):
    pass


class StepCap(Exception):
    pass


class Task(object):
    def __init__(self, tid, fn):
        self.tid = tid
        self.fn = fn
        self.sem = _rt.Semaphore(0)
        self.done = False
        self.started = False
        self.pred = None  # readiness predicate while blocked
        self.blocked_on = None
        self.exc = None
        self.thread = None
        self.start_after = 0  # staggered start: decision index before which it is not runnable
        self.parked = None  # race policy: (paths, parents) of the postponed event
        self.parks = 0


class Sched(object):
    def __init__(self, run, policy="default", seed=0, preempt=None, wake="fifo", spurious=0.0,
                 step_cap=STEP_CAP_DEFAULT, pct_depth=2, est_len=300, bound=2, line_trace=None):
        self.run = run
        # line_trace: file name whose executed LINES are pre-emption points too (in-memory races between two
        # statements of the store, below file-system-call granularity)
        self.line_trace = line_trace
        self.line_points = 0
        if line_trace:
            step_cap = step_cap * 100
        run.sched = self
        self.policy = policy
        self.rng = random.Random("sched:%s" % seed)
        self.wake_rng = random.Random("wake:%s" % seed)
        self.preempt_in = dict((int(k), v) for k, v in (preempt or {}).items())
        self.preempt_out = {}
        self.wake = wake
        self.spurious = spurious
        self.step_cap = step_cap
        self.tasks = []
        self.current = None
        self.decision = 0  # yield points seen so far
        self.main_sem = _rt.Semaphore(0)
        self.aborting = False
        self.failure = None  # ("deadlock"|"stepcap", detail)
        self.history = []  # (decision index, tid) actually run, for signatures
        self.switches = 0
        self.wake_other = 0  # probe: waiter woken although its identifier is still locked
        # PCT state
        self.pct_depth = pct_depth
        self.est_len = est_len
        self.bound = bound
        self._prio = {}
        self._change_points = set()
        self._bp_points = set()
        self.conditions = []
        self.park_p = 0.1
        self.timed_waits = 0
        self.race_hits = 0  # probe: a postponed event met a conflicting one

    # -- set-up ------------------------------------------------------------------------------
    def spawn(self, fn, start_after=0):
        t = Task(len(self.tasks) + 1, fn)
        t.start_after = start_after
        self.tasks.append(t)
        return t

    def _init_policy(self):
        n = len(self.tasks)
        if self.policy == "pct":
            prios = list(range(self.pct_depth, self.pct_depth + n))
            self.rng.shuffle(prios)
            self._prio = dict((t.tid, p) for t, p in zip(self.tasks, prios))
            k = max(self.est_len, 2)
            self._change_points = {}
            for i in range(self.pct_depth - 1):
                self._change_points[self.rng.randrange(1, k)] = self.pct_depth - 1 - i
        elif self.policy == "bounded":
            k = max(self.est_len, 2)
            self._bp_points = set(self.rng.randrange(1, k) for _ in range(self.bound))
        elif self.policy == "race":
            self.park_p = self.rng.choice([0.04, 0.08, 0.15, 0.3])

    # -- main loop ---------------------------------------------------------------------------
    def run_all(self):
        """Run all spawned tasks to completion (or deadlock / step cap)."""
        self._init_policy()
        for t in self.tasks:
            t.thread = _rt.Thread(target=self._body, args=(t,), daemon=True)
        first = self._pick(None, None)
        if first is None:
            return
        self._switch_to(first, None)
        self.main_sem.acquire()
        if self.failure is not None:
            # tear down: wake every unfinished task, it raises SimAbort at its yield point
            self.aborting = True
            for t in self.tasks:
                if t.started and not t.done:
                    t.sem.release()
                    self.main_sem.acquire()
        for t in self.tasks:
            if t.thread is not None and t.started:
                t.thread.join(timeout=10)

    def _body(self, t):
        t.sem.acquire()
        with seam.activate(self.run, t.tid):
            try:
                if not self.aborting:
                    if self.line_trace:
                        sys.settrace(self._global_tracer)
                    try:
                        t.fn()
                    finally:
                        if self.line_trace:
                            sys.settrace(None)
            except seam.SimAbort:
                pass
            except seam.SimCrash:
                pass
            except BaseException as e:  # harness bug inside a task body
                t.exc = e
        t.done = True
        if self.aborting:
            self.main_sem.release()
            return
        nxt = self._pick(None, None)
        if nxt is None:
            if any(not x.done for x in self.tasks):
                self.failure = ("deadlock", self._describe_blocked())
            self.main_sem.release()
        else:
            self._switch_to(nxt, None)

    def _describe_blocked(self):
        return [(x.tid, str(x.blocked_on)) for x in self.tasks if not x.done]

    def _runnable(self):
        out = []
        for t in self.tasks:
            if t.done:
                continue
            if not t.started and t.start_after > self.decision:
                continue
            if t.pred is not None:
                if not t.pred():
                    continue
            out.append(t)
        if not out:
            # staggered tasks become runnable when nothing else is
            for t in self.tasks:
                if not t.done and not t.started:
                    out.append(t)
                    break
        return out

    def _pick(self, cur, ev, res=None):
        """Choose the next task to run at this decision point."""
        runnable = self._runnable()
        if not runnable:
            return None
        self.decision += 1
        d = self.decision
        if d > self.step_cap:
            self.failure = ("stepcap", d)
            return None
        default = cur if (cur is not None and cur in runnable) else runnable[0]
        if len(runnable) == 1:
            runnable[0].parked = None
            return runnable[0]
        choice = default
        if res is not None and res[0] == "line" and not self.preempt_in:
            # between two statements: switch rarely (a few times per call)
            if cur is not None and cur.parked is not None:
                cur.parked = None
            if self.rng.random() < 0.004:
                others = [t for t in runnable if t is not cur]
                if others:
                    choice = self.rng.choice(others)
            if choice is not default:
                self.preempt_out[d] = choice.tid
            return choice
        if self.preempt_in:
            want = self.preempt_in.get(d)
            if want is not None:
                for t in runnable:
                    if t.tid == want:
                        choice = t
                        break
        elif self.policy == "random":
            choice = self.rng.choice(runnable)
        elif self.policy == "pct":
            cp = self._change_points.get(d)
            if cp is not None and cur is not None:
                self._prio[cur.tid] = cp
            choice = max(runnable, key=lambda t: self._prio[t.tid])
        elif self.policy == "bounded":
            if d in self._bp_points:
                others = [t for t in runnable if t is not cur]
                if others:
                    choice = self.rng.choice(others)
        elif self.policy == "probe":
            # pre-empt right after an existence probe / right before the dependent write
            if ev is not None and ev.kind in ("probe", "open-read", "listdir") and self.rng.random() < 0.15:
                others = [t for t in runnable if t is not cur]
                if others:
                    choice = self.rng.choice(others)
            elif self.rng.random() < 0.01:
                choice = self.rng.choice(runnable)
        elif self.policy == "race":
            choice = self._pick_race(cur, ev, res, runnable, default)
        if choice is not default:
            self.preempt_out[d] = choice.tid
        return choice

    # race-directed policy: a task about to execute a mutating step is postponed ("parked") with
    # probability park_p; it stays parked until another task is about to execute a step on the same
    # file / directory entry / shared list, and then a coin decides which of the two goes first (the
    # postponed one may stay parked for the next conflicting step).  Finds windows of the form
    # "B's step lands between two adjacent steps of A" with one lucky draw instead of two.
    def _keys(self, ev, res):
        if res is not None:
            return (frozenset([res[0]]), frozenset()), bool(res[1])
        if ev is None or ev.rel is None:
            return None, False
        paths = set([ev.rel])
        if ev.kind == "rename" and isinstance(ev.extra, str):
            paths.add(ev.extra)
        parents = set(os.path.dirname(x) for x in paths)
        return (frozenset(paths), frozenset(parents)), ev.kind in seam.MUTATING

    @staticmethod
    def _conflict(a, b):
        return bool((a[0] & b[0]) or (a[0] & b[1]) or (a[1] & b[0]))

    def _pick_race(self, cur, ev, res, runnable, default):
        keys, mutating = self._keys(ev, res)
        if cur is not None and cur.parked is not None:
            cur.parked = None  # it was released: it executes its postponed step now
            return default
        avail = [t for t in runnable if t.parked is None]
        if cur is not None and cur in runnable and keys is not None:
            hits = [t for t in runnable if t.parked is not None and t is not cur and self._conflict(t.parked, keys)]
            if hits:
                self.race_hits += 1
                if self.rng.random() < 0.5:
                    return hits[0]  # the postponed step goes first (unparked when it runs)
                return cur
            if mutating and cur.parks < 3 and len(avail) > 1 and self.rng.random() < self.park_p:
                cur.parked = keys
                cur.parks += 1
                return self.rng.choice([t for t in avail if t is not cur])
        if default in avail:
            if self.rng.random() < 0.01:
                return self.rng.choice(avail)
            return default
        if avail:
            return self.rng.choice(avail)
        # everybody runnable is parked: release one
        t = self.rng.choice(runnable)
        return t

    def _switch_to(self, nxt, cur):
        self.current = nxt
        self.history.append(nxt.tid)
        if nxt is cur:
            return
        self.switches += 1
        if not nxt.started:
            nxt.started = True
            nxt.thread.start()
        nxt.sem.release()
        if cur is not None and not cur.done:
            cur.sem.acquire()
            if self.aborting:
                raise seam.SimAbort()

    def _me(self):
        return self.current

    # -- line-level pre-emption ---------------------------------------------------------------
    def _global_tracer(self, frame, event, arg):
        if frame.f_code.co_filename == self.line_trace:
            return self._local_tracer
        return None

    def _local_tracer(self, frame, event, arg):
        if event == "line" and not self.aborting:
            cur = self.current
            if cur is not None and cur.thread is not None and cur.thread.ident == _rt.get_ident() and \
                    getattr(seam._tl, "depth", 0) == 0:
                self.line_points += 1
                nxt = self._pick(cur, None, ("line", False))
                if nxt is None:
                    self._fail_from_task(cur)
                if nxt is not cur:
                    self._switch_to(nxt, cur)
        return self._local_tracer

    def yield_point(self, ev=None, res=None):
        if self.aborting:
            return
        cur = self.current
        nxt = self._pick(cur, ev, res)
        if nxt is None:
            self._fail_from_task(cur)
        if nxt is not cur:
            self._switch_to(nxt, cur)

    def _fail_from_task(self, cur):
        if self.failure is None:
            self.failure = ("deadlock", self._describe_blocked())
        self.main_sem.release()
        cur.sem.acquire()
        raise seam.SimAbort()

    def block_on(self, what, pred=None):
        """Current task cannot proceed until ``pred()`` holds."""
        if self.aborting:
            raise seam.SimAbort()
        cur = self.current
        cur.pred = pred
        cur.blocked_on = what
        try:
            nxt = self._pick(cur, None)
            if nxt is None:
                self._fail_from_task(cur)
            if nxt is not cur:
                self._switch_to(nxt, cur)
        finally:
            cur.pred = None
            cur.blocked_on = None


def _sched():
    run = seam.current_run()
    if run is None:
        return None
    return run.sched


_lock_ids = [0]


class SimLock(object):
    def __init__(self, kind="th"):
        self.locked_by = None
        _lock_ids[0] += 1
        self.name = "%s-lock" % kind
        self.kind = kind

    def acquire(self, blocking=True, timeout=-1):
        s = _sched()
        if s is None or s.aborting:
            if self.locked_by is not None and (s is None):
                raise Deadlock("single task acquires a held lock %s" % self.name)
            self.locked_by = 0
            return True
        s.yield_point()
        me = s.current.tid
        while self.locked_by is not None:
            if not blocking:
                return False
            if timeout is not None and timeout >= 0:
                # timed acquire: may give up whenever the scheduler says so (no clock in the simulation)
                s.timed_waits += 1
                s.block_on(("lock-timed", self.name), lambda: True)
                if self.locked_by is not None:
                    return False
                break
            s.block_on(("lock", self.name), lambda: self.locked_by is None)
        self.locked_by = me
        return True

    def release(self):
        s = _sched()
        self.locked_by = None
        if s is not None and not s.aborting:
            s.yield_point()

    def locked(self):
        return self.locked_by is not None

    __enter__ = acquire

    def __exit__(self, *a):
        self.release()
        return False


class SimCondition(object):
    def __init__(self, lock=None, kind="th"):
        self.lock = lock if lock is not None else SimLock(kind)
        self.waiters = []  # [task id, notified flag]
        self.kind = kind
        self.acquire = self.lock.acquire
        self.release = self.lock.release

    def __enter__(self):
        return self.lock.acquire()

    def __exit__(self, *a):
        self.lock.release()
        return False

    def _owned(self, s):
        if s is None or s.aborting:
            return self.lock.locked_by is not None
        return self.lock.locked_by == s.current.tid

    def wait(self, timeout=None):
        s = _sched()
        if not self._owned(s):
            raise RuntimeError("cannot wait on un-acquired lock")
        if s is None:
            raise Deadlock("single task waits on a condition: nobody can notify")
        if s.aborting:
            raise seam.SimAbort()
        me = s.current.tid
        entry = [me, False]
        self.waiters.append(entry)
        self.lock.locked_by = None
        try:
            if timeout is None:
                s.block_on(("cond", self.lock.name), lambda: entry[1])
            else:
                # a timed wait: there is no clock the properties depend on, so the time-out may expire
                # whenever the scheduler says so (the other party may be stalled for arbitrarily long)
                s.timed_waits += 1
                s.block_on(("cond-timed", self.lock.name), lambda: True)
        finally:
            if entry in self.waiters:
                self.waiters.remove(entry)
        # re-acquire
        while self.lock.locked_by is not None:
            s.block_on(("lock", self.lock.name), lambda: self.lock.locked_by is None)
        self.lock.locked_by = me
        return entry[1]

    def wait_for(self, predicate, timeout=None):
        result = predicate()
        while not result:
            notified = self.wait(timeout)
            result = predicate()
            if timeout is not None and not notified:
                break  # timed out
        return result

    def notify(self, n=1):
        s = _sched()
        if not self._owned(s):
            raise RuntimeError("cannot notify on un-acquired lock")
        pending = [w for w in self.waiters if not w[1]]
        if s is not None and not s.aborting:
            for _ in range(min(n, len(pending))):
                if s.wake == "fifo":
                    w = pending.pop(0)
                else:
                    w = pending.pop(s.wake_rng.randrange(len(pending)))
                w[1] = True
            # spurious wake-ups are legal for condition variables
            if s.spurious and pending and s.wake_rng.random() < s.spurious:
                pending[s.wake_rng.randrange(len(pending))][1] = True
            s.yield_point()
        else:
            for w in pending[:n]:
                w[1] = True

    def notify_all(self):
        self.notify(len(self.waiters))


class SimThreading(object):
    """Stands in for the ``threading`` module inside hashstore.filehashstore."""

    def Lock(self):
        return SimLock("th")

    def Condition(self, lock=None):
        return SimCondition(lock, "th")

    def __getattr__(self, name):
        return getattr(_rt, name)


class SimManagerList(object):
    """Manager().list() proxy: every operation is a round trip to the manager process, hence
    a yield point."""

    def __init__(self):
        self._items = []

    def _y(self, mut=False):
        s = _sched()
        if s is not None and not s.aborting:
            s.yield_point(None, (("L", id(self)), mut))

    def __contains__(self, x):
        self._y()
        return x in self._items

    def append(self, x):
        self._y(True)
        self._items.append(x)

    def remove(self, x):
        self._y(True)
        self._items.remove(x)

    def __len__(self):
        return len(self._items)

    def __iter__(self):
        return iter(list(self._items))

    # the rest of what multiprocessing.managers.ListProxy exposes (each call is a round trip too)
    def __getitem__(self, i):
        self._y()
        r = self._items[i]
        return list(r) if isinstance(i, slice) else r

    def __setitem__(self, i, v):
        self._y(True)
        self._items[i] = v

    def __delitem__(self, i):
        self._y(True)
        del self._items[i]

    def pop(self, *a):
        self._y(True)
        return self._items.pop(*a)

    def extend(self, it):
        self._y(True)
        self._items.extend(it)

    def insert(self, i, v):
        self._y(True)
        self._items.insert(i, v)

    def index(self, *a):
        self._y()
        return self._items.index(*a)

    def count(self, v):
        self._y()
        return self._items.count(v)

    def reverse(self):
        self._y(True)
        self._items.reverse()

    def sort(self, *a, **kw):
        self._y(True)
        self._items.sort(*a, **kw)


class YieldList(list):
    """A plain list whose membership test / append / remove are yield points: list operations are
    atomic in CPython, but a thread switch between two of them is legal (threading mode gets the same
    granularity on its locked-identifier lists as the manager-list proxies of multiprocessing mode)."""

    def _y(self, mut=False):
        s = _sched()
        if s is not None and not s.aborting:
            s.yield_point(None, (("L", id(self)), mut))

    def __contains__(self, x):
        self._y()
        return list.__contains__(self, x)

    def append(self, x):
        self._y(True)
        list.append(self, x)

    def remove(self, x):
        self._y(True)
        list.remove(self, x)


class _SimManager(object):
    def list(self, *a):
        return SimManagerList()


class SimMultiprocessing(object):
    """Stands in for the ``multiprocessing`` module inside hashstore.filehashstore."""

    def Lock(self):
        return SimLock("mp")

    def Condition(self, lock=None):
        return SimCondition(lock, "mp")

    def Manager(self):
        return _SimManager()


class AtexitRecorder(object):
    """atexit.register stand-in: records, never runs (a killed process runs no exit hooks)."""

    def __init__(self):
        self.n = 0

    def register(self, fn, *a, **kw):
        self.n += 1
        return fn

    def unregister(self, fn):
        pass
