"""The seam: every file-system call, file write, advisory lock, temp-file name and stat block
size that HashStore (and shutil / tempfile / pathlib underneath it) uses goes through here.

The wrappers are installed globally on ``os`` / ``io`` / ``builtins`` / ``fcntl`` once, but are
*active* only on threads that carry a simulator run (``_tl.run``) and only for paths inside that
run's sandbox; everywhere else they fall straight through to the real function.

For every intercepted call, in this order:
  1. the event is appended to the run's log (no PRNG draw, no clock),
  2. observers run (atomicity monitor, access monitors),
  3. the crash plan may kill the task (snapshot + ``SimCrash``),
  4. the fault plan may raise ``OSError`` instead of executing,
  5. the scheduler may switch tasks (only when the run has a scheduler),
  6. the real call executes.
"""

import builtins
import errno as _errno
import fcntl
import io
import os
import shutil
import tempfile
import threading

_tl = threading.local()

# real functions, captured before patching -------------------------------------------------
_real = {}
_REAL_OPEN = io.open
_REAL_FLOCK = fcntl.flock

MUTATING = frozenset(
    ["create", "open-write", "mkdir", "rename", "remove", "write", "truncate", "close-w",
     "flock", "chmod", "rmdir"]
)
# kinds at which an OSError may be injected (C13 quantifier) -- "write"/"close-w" are the
# extended kinds (not in the property's list, used only by the extended sweep)
FAULT_KINDS_CORE = frozenset(["create", "open-write", "open-read", "mkdir", "rename", "remove", "flock"])
FAULT_KINDS_EXT = frozenset(["write", "close-w", "truncate"])


class SimCrash(BaseException):
    """The simulated process died at this seam event."""


class SimAbort(BaseException):
    """The scheduler tears the run down (deadlock, step cap)."""


class SimLivelock(BaseException):
    """One API call has issued more file-system events than any terminating call of these workloads can
    (single-task engines have no scheduler whose step cap would notice): the call does not return."""


CALL_EVENT_CAP = 400000


class Event(object):
    __slots__ = ("seq", "task", "kind", "op", "cls", "rel", "path", "extra")

    def __init__(self, seq, task, kind, op, cls, rel, path, extra=None):
        self.seq = seq
        self.task = task
        self.kind = kind
        self.op = op
        self.cls = cls
        self.rel = rel
        self.path = path
        self.extra = extra

    def key(self):
        return (self.task, self.kind, self.op, self.rel, self.extra if isinstance(self.extra, str) else None)

    def brief(self):
        return "%d t%s %s %s %s" % (self.seq, self.task, self.kind, self.cls, self.rel)


def classify(rel):
    """Path class of a sandbox-relative path (layout independent: only the directory names
    HashStore documents -- objects / metadata / refs/{pids,cids,tmp} / tmp -- are used)."""
    parts = rel.split("/")
    if parts[0] == "input":
        return "input"
    if parts[0] != "store":
        return "sandbox"
    parts = parts[1:]
    if not parts:
        return "root"
    last = parts[-1]
    suffix = "~del" if last.endswith("_delete") else ""
    top = parts[0]
    if top == "hashstore.yaml":
        return "yaml"
    if top == "objects":
        if len(parts) > 1 and parts[1] == "tmp":
            return "obj/tmp"
        return "obj/perm" + suffix
    if top == "metadata":
        if len(parts) > 1 and parts[1] == "tmp":
            return "meta/tmp"
        return "meta/doc" + suffix
    if top == "refs":
        if len(parts) > 1:
            if parts[1] == "tmp":
                return "refs/tmp"
            if parts[1] == "pids":
                return "refs/pid" + suffix
            if parts[1] == "cids":
                return "refs/cid" + suffix
        return "refs"
    return "foreign"


class FaultPlan(object):
    """One injected failure: fire at the ``index``-th fault-site event (counted over the kinds
    in ``kinds``) of the run; ``persistent`` makes every later event on the same target path
    fail too, until ``clear()``; ``persistent == "noremove"`` is the variant in which the path can
    still be unlinked (a file that cannot be opened or replaced -- permissions, a bad block --
    while its directory is healthy)."""

    def __init__(self, index, err=_errno.EIO, persistent=False, kinds=FAULT_KINDS_CORE):
        self.index = index
        self.err = err
        self.persistent = persistent
        self.kinds = kinds
        self.count = 0
        self.fired = None  # Event that fired
        self.fired_n = 0
        self.target = None
        self.active = True
        self.hits = []  # (task, seam sequence number) of every injected error

    def clear(self):
        self.active = False


class Run(object):
    """State shared by all tasks of one simulated execution."""

    def __init__(self, sandbox, seed=0, blksize=None, write_through=False, sched=None,
                 shuffle_listdir=True):
        self.sandbox = os.path.realpath(sandbox)
        self.prefix = self.sandbox + os.sep
        self.store_prefix = os.path.join(self.sandbox, "store") + os.sep
        self.store_root = os.path.join(self.sandbox, "store")
        # what tempfile.gettempdir() answers while this run is alive: a directory OUTSIDE the store root
        # and (as in the usual deployment) on another file system: a rename between it and the store
        # fails with EXDEV.  Using it is recorded as an escape (C18) but not refused.
        self.exttmp = os.path.join(self.sandbox, "exttmp")
        self.ext_prefix = self.exttmp + os.sep
        self.seed = seed
        self.blksize = blksize
        self.write_through = write_through
        self.sched = sched
        self.shuffle_listdir = shuffle_listdir
        self.log = []
        self.seq = 0
        self.observers = []
        self.fault = None
        self.crash_at = None  # seam event index (over crash-site events) at which to die
        self.crash_count = 0
        self.crash_kinds = None
        self.crash_snapshot = None  # directory the sandbox store is copied to on crash
        self.crashed = False
        self.escapes = []  # mutating calls outside the store root (containment monitor)
        self.flocks = {}  # inode -> task holding the simulated advisory lock
        self.tmp_counter = 0
        self.listdir_counter = 0
        self.counts = {}
        self.recording = True
        self.dead_tasks = set()
        self.all_dead = False
        self.kill_all = False  # the whole process (all tasks) dies at the crash point
        self.epoch = 0  # incremented at every simulated process death: older file objects are dead
        # "short writes": a write on a raw descriptor (unbuffered file object, os.write, os.sendfile,
        # os.copy_file_range) may legally accept fewer bytes than offered and say so in its return value
        self.short_writes = False
        self.short_counter = 0
        self.call_events = 0  # seam events since the current API call began (reset by World.exec_op)
        self.at_fork_child = []  # os.register_at_fork(after_in_child=...) handlers registered under simulation

    def short(self, n):
        """How many of n offered bytes this raw write accepts (seeded, deterministic)."""
        if not self.short_writes or n < 2:
            return n
        self.short_counter += 1
        import hashlib
        h = int(hashlib.sha1(("short:%s:%d" % (self.seed, self.short_counter)).encode()).hexdigest()[:8], 16)
        if h % 3:
            return n
        self.counts["short-write"] = self.counts.get("short-write", 0) + 1
        return 1 + (h >> 8) % (n - 1)

    # -- helpers ---------------------------------------------------------------------------
    def rel(self, path):
        return path[len(self.prefix):] if path.startswith(self.prefix) else None

    def digest(self):
        import hashlib
        h = hashlib.sha256()
        for e in self.log:
            h.update(repr(e.key()).encode("utf8", "surrogatepass"))
        return h.hexdigest()

    def event(self, kind, op, path, extra=None):
        """Steps 1-5 of the seam protocol for one intercepted call."""
        task = getattr(_tl, "task", 0)
        if task in self.dead_tasks or self.all_dead:
            # a dead process executes nothing: unwind silently
            raise SimCrash()
        rel = self.rel(path)
        cls = classify(rel) if rel is not None else "outside"
        self.call_events += 1
        if self.call_events > CALL_EVENT_CAP and self.sched is None:
            self.call_events = 0
            raise SimLivelock()
        self.seq += 1
        ev = Event(self.seq, task, kind, op, cls, rel, path, extra)
        if self.recording:
            self.log.append(ev)
        c = self.counts
        c[kind] = c.get(kind, 0) + 1
        if self.observers:
            _tl.depth = getattr(_tl, "depth", 0) + 1
            try:
                for ob in self.observers:
                    ob(self, ev)
            finally:
                _tl.depth -= 1
        # crash plan
        if self.crash_at is not None and (self.crash_kinds is None or kind in self.crash_kinds):
            if self.crash_count == self.crash_at:
                self.crash_count += 1
                self._die(task, ev)
            self.crash_count += 1
        # fault plan
        fp = self.fault
        if fp is not None and fp.active:
            if fp.fired is None:
                if kind in fp.kinds:
                    if fp.count == fp.index:
                        fp.fired = ev
                        fp.fired_n = 1
                        fp.target = path
                        fp.count += 1
                        fp.hits.append((task, self.seq))
                        raise OSError(fp.err, os.strerror(fp.err) + " [injected]", path)
                    fp.count += 1
            elif fp.persistent and path == fp.target and kind in fp.kinds and kind != "close-w" and \
                    not (fp.persistent == "noremove" and kind == "remove"):
                fp.fired_n += 1
                fp.hits.append((task, self.seq))
                raise OSError(fp.err, os.strerror(fp.err) + " [injected]", path)
        # scheduler
        s = self.sched
        if s is not None:
            s.yield_point(ev)
        return ev

    def _die(self, task, ev):
        self.crashed = True
        self.crash_event = ev
        self.dead_tasks.add(task)
        self.epoch += 1
        # advisory locks die with their process
        if self.kill_all or self.sched is None:
            self.flocks.clear()
        else:
            for ent in self.flocks.values():
                if ent["ex"] is not None and ent["ex"][0] == task:
                    ent["ex"] = None
                ent["sh"].pop(task, None)
        if self.kill_all:
            self.all_dead = True
        if self.crash_snapshot is not None:
            _tl.depth = getattr(_tl, "depth", 0) + 1
            try:
                shutil.copytree(self.store_root, self.crash_snapshot, symlinks=True)
            finally:
                _tl.depth -= 1
        raise SimCrash()


def current_run():
    return getattr(_tl, "run", None)


class activate(object):
    """Context manager: make the calling thread a simulator thread for ``run``."""

    def __init__(self, run, task=0):
        self.run = run
        self.task = task

    def __enter__(self):
        self.prev = (getattr(_tl, "run", None), getattr(_tl, "task", 0))
        _tl.run = self.run
        _tl.task = self.task
        _tl.depth = 0
        return self.run

    def __exit__(self, *a):
        _tl.run, _tl.task = self.prev
        return False


class passthrough(object):
    """Context manager: harness code that must not produce seam events (observers, oracles)."""

    def __enter__(self):
        _tl.depth = getattr(_tl, "depth", 0) + 1

    def __exit__(self, *a):
        _tl.depth -= 1
        return False


def _active():
    run = getattr(_tl, "run", None)
    if run is None or getattr(_tl, "depth", 0):
        return None
    return run


def _fd_path_early(fd):
    try:
        return os.readlink("/proc/self/fd/%d" % fd)
    except OSError:
        return None


def _abspath(p, dir_fd=None):
    if isinstance(p, int) and not isinstance(p, bool):
        # an open descriptor used as a path (os.stat(fd), os.listdir(fd), os.scandir(fd))
        return _fd_path_early(p)
    try:
        p = os.fspath(p)
    except TypeError:
        return None
    if dir_fd is not None and isinstance(p, (str, bytes)):
        # *at() variants (shutil.rmtree walks with dir_fd): the name is relative to that directory
        base = _fd_path_early(dir_fd)
        q = os.fsdecode(p) if isinstance(p, bytes) else p
        if base is not None and not q.startswith("/"):
            return os.path.normpath(os.path.join(base, q))
    if isinstance(p, bytes):
        p = os.fsdecode(p)
    if not isinstance(p, str):
        return None
    if not p.startswith("/"):
        p = os.path.join(os.getcwd(), p)
    return os.path.normpath(p)


def _inside(run, ap):
    return ap is not None and (ap.startswith(run.prefix) or ap == run.sandbox)


def _escape(run, op, ap):
    """A mutating call on a path outside the store root: recorded and refused."""
    run.escapes.append((op, ap))
    raise PermissionError(_errno.EACCES, "simulator containment: %s outside store root" % op, ap)


def _in_ext(run, ap):
    return ap.startswith(run.ext_prefix) or ap == run.exttmp


def _check_contained(run, op, ap):
    if _in_ext(run, ap):
        if not any(e[1] == ap for e in run.escapes):
            run.escapes.append((op + ":system-tmp-dir", ap))
        return
    if not (ap.startswith(run.store_prefix) or ap == run.store_root):
        # input files live in <sandbox>/input and are only ever read by the store
        _escape(run, op, ap)


# ------------------------------------------------------------------------------------------
# os.* wrappers
# ------------------------------------------------------------------------------------------

def _patch(mod, name, fn):
    key = (mod.__name__, name)
    if key not in _real:
        _real[key] = getattr(mod, name)
    fn.__name__ = name
    fn.__wrapped_real__ = _real[key]
    setattr(mod, name, fn)


def _mk_stat(name):
    real = getattr(os, name)

    def stat(path, *a, **kw):
        run = _active()
        if run is None:
            return real(path, *a, **kw)
        ap = _abspath(path, kw.get("dir_fd"))
        if not _inside(run, ap):
            return real(path, *a, **kw)
        run.event("probe", name, ap)
        st = real(path, *a, **kw)
        if run.blksize:
            st = os.stat_result(tuple(st), _stat_extras(st, run.blksize))
        return st

    return stat


_STAT_FIELDS = [f for f in dir(os.stat_result) if f.startswith("st_")]


def _stat_extras(st, blksize):
    d = {}
    for f in _STAT_FIELDS:
        try:
            d[f] = getattr(st, f)
        except AttributeError:
            pass
    d["st_blksize"] = blksize
    return d


def _mk_single(name, kind, contained=True):
    real = getattr(os, name)

    def fn(path, *a, **kw):
        run = _active()
        if run is None:
            return real(path, *a, **kw)
        ap = _abspath(path, kw.get("dir_fd"))
        if ap is None:
            return real(path, *a, **kw)
        if not _inside(run, ap):
            if contained:
                _escape(run, name, ap)
            return real(path, *a, **kw)
        if contained:
            _check_contained(run, name, ap)
        run.event(kind, name, ap)
        _tl.depth += 1
        try:
            return real(path, *a, **kw)
        finally:
            _tl.depth -= 1

    return fn


def _mk_rename(name):
    real = getattr(os, name)

    def fn(src, dst, *a, **kw):
        run = _active()
        if run is None:
            return real(src, dst, *a, **kw)
        asrc, adst = _abspath(src, kw.get("src_dir_fd")), _abspath(dst, kw.get("dst_dir_fd"))
        if asrc is None or adst is None:
            return real(src, dst, *a, **kw)
        if not _inside(run, adst) or not _inside(run, asrc):
            if not _inside(run, adst) and not _inside(run, asrc):
                _escape(run, name, adst)
            _escape(run, name, adst if not _inside(run, adst) else asrc)
        _check_contained(run, name, adst)
        _check_contained(run, name, asrc)
        # the event's path is the destination (C13: "persistent for that destination")
        run.event("rename", name, adst, extra=run.rel(asrc))
        if _in_ext(run, asrc) != _in_ext(run, adst):
            run.counts["exdev"] = run.counts.get("exdev", 0) + 1
            raise OSError(_errno.EXDEV, "Invalid cross-device link [simulated: system tmp dir is another file system]", src)
        _tl.depth += 1
        try:
            return real(src, dst, *a, **kw)
        finally:
            _tl.depth -= 1

    return fn


def _os_open(path, flags, mode=0o777, *a, **kw):
    real = _real[("os", "open")]
    run = _active()
    if run is None:
        return real(path, flags, mode, *a, **kw)
    ap = _abspath(path, kw.get("dir_fd"))
    if ap is None:
        return real(path, flags, mode, *a, **kw)
    writing = flags & (os.O_WRONLY | os.O_RDWR | os.O_CREAT | os.O_TRUNC | os.O_APPEND)
    if not _inside(run, ap):
        if writing:
            _escape(run, "open", ap)
        return real(path, flags, mode, *a, **kw)
    if writing:
        _check_contained(run, "open", ap)
        kind = "create" if flags & os.O_CREAT else "open-write"
    else:
        kind = "open-read"
    run.event(kind, "os.open", ap)
    _tl.last_os_open = ap
    _tl.depth += 1
    try:
        return real(path, flags, mode, *a, **kw)
    finally:
        _tl.depth -= 1


def _fd_path(fd):
    try:
        return os.readlink("/proc/self/fd/%d" % fd)
    except OSError:
        return None


def _mk_fd_write(name, fd_arg=0):
    """os.sendfile / os.copy_file_range / os.write / os.ftruncate: kernel-visible data steps on a
    descriptor (shutil's fast-copy path writes this way)."""
    real = getattr(os, name)

    def fn(*a, **kw):
        run = _active()
        if run is None:
            return real(*a, **kw)
        fd = a[fd_arg] if len(a) > fd_arg else None
        ap = _fd_path(fd) if isinstance(fd, int) else None
        if ap is None or not _inside(run, ap):
            return real(*a, **kw)
        run.event("truncate" if name == "ftruncate" else "write", name, ap)
        if run.short_writes and not kw:
            a = list(a)
            if name == "write" and isinstance(a[1], (bytes, bytearray, memoryview)):
                a[1] = bytes(a[1])[: run.short(len(a[1]))]
            elif name == "sendfile" and len(a) == 4 and isinstance(a[3], int):
                a[3] = run.short(a[3])
            elif name == "copy_file_range" and len(a) >= 3 and isinstance(a[2], int):
                a[2] = run.short(a[2])
        return real(*a, **kw)

    return fn


def _listdir(path="."):
    real = _real[("os", "listdir")]
    run = _active()
    if run is None:
        return real(path)
    ap = _abspath(path)
    if not _inside(run, ap):
        return real(path)
    run.event("listdir", "listdir", ap)
    names = real(path)
    if run.shuffle_listdir and len(names) > 1:
        import random
        run.listdir_counter += 1
        names = sorted(names)
        random.Random("%s:%s" % (run.seed, run.listdir_counter)).shuffle(names)
    return names


def _open(file, mode="r", buffering=-1, encoding=None, errors=None, newline=None,
          closefd=True, opener=None):
    run = _active()
    if run is None:
        return _REAL_OPEN(file, mode, buffering, encoding, errors, newline, closefd, opener)
    if opener is not None:
        # tempfile.NamedTemporaryFile: the creating os.open inside the opener is the event
        _tl.last_os_open = None
        f = _REAL_OPEN(file, mode, buffering, encoding, errors, newline, closefd, opener)
        ap = getattr(_tl, "last_os_open", None)
        if ap is not None and _inside(run, ap):
            return FileProxy(f, run, ap)
        return f
    ap = _abspath(file)
    if ap is None:
        return _REAL_OPEN(file, mode, buffering, encoding, errors, newline, closefd, opener)
    writing = any(c in mode for c in "wax+")
    if not _inside(run, ap):
        if writing:
            _escape(run, "open", ap)
        return _REAL_OPEN(file, mode, buffering, encoding, errors, newline, closefd, opener)
    if writing:
        _check_contained(run, "open", ap)
        if "w" in mode or "x" in mode:
            kind = "create"
        else:
            kind = "open-write"
    else:
        kind = "open-read"
    run.event(kind, "open:" + mode, ap)
    _tl.depth += 1
    try:
        f = _REAL_OPEN(file, mode, buffering, encoding, errors, newline, closefd, opener)
    finally:
        _tl.depth -= 1
    if writing:
        return FileProxy(f, run, ap)
    return f


def _flock(fd, operation):
    run = _active()
    if run is None:
        return _REAL_FLOCK(fd, operation)
    if hasattr(fd, "fileno"):
        fd = fd.fileno()
    try:
        ap = os.readlink("/proc/self/fd/%d" % fd)
    except OSError:
        ap = None
    if ap is None or not _inside(run, ap):
        return _REAL_FLOCK(fd, operation)
    task = getattr(_tl, "task", 0)
    st = os.fstat(fd)
    key = (st.st_dev, st.st_ino)
    run.event("flock", "flock", ap)
    # simulated lock table (a real flock would block the baton-passing scheduler):
    # key -> {"ex": task or None, "sh": set(tasks)}
    ent = run.flocks.setdefault(key, {"ex": None, "sh": {}})

    def alive(holder):
        """A holder (task, fd) still holds while its descriptor is open on the same inode."""
        t, hfd = holder
        if t in run.dead_tasks:
            return False
        try:
            st2 = os.fstat(hfd)
        except OSError:
            return False
        return (st2.st_dev, st2.st_ino) == key

    if operation & fcntl.LOCK_UN:
        if ent["ex"] is not None and ent["ex"][0] == task:
            ent["ex"] = None
        ent["sh"].pop(task, None)
        return None
    shared = bool(operation & fcntl.LOCK_SH)

    def free():
        ex = ent["ex"]
        if ex is not None and not alive(ex):
            ent["ex"] = ex = None
        for t in [t for t, hfd in ent["sh"].items() if not alive((t, hfd))]:
            del ent["sh"][t]
        # flock locks belong to the open file description: a second open() of the same file conflicts with the
        # first one even inside one task / process (only the same descriptor may re-lock or convert)
        if ex is not None and not (ex[0] == task and ex[1] == fd):
            return False
        if not shared and any(not (t == task and hfd == fd) for t, hfd in ent["sh"].items()):
            return False
        return True

    while True:
        if free():
            if shared:
                ent["sh"][task] = fd
                if ent["ex"] is not None and ent["ex"][0] == task:
                    ent["ex"] = None
            else:
                ent["ex"] = (task, fd)
                ent["sh"].pop(task, None)
            return None
        if operation & fcntl.LOCK_NB:
            raise BlockingIOError(_errno.EWOULDBLOCK, "simulated flock busy")
        if run.sched is None:
            # nobody else exists who could release it: the call never returns
            raise SimLivelock()
        run.sched.block_on(("flock", key), free)


def _flock_release(run, fileobj, task):
    """Closing a descriptor drops the advisory locks taken through it."""
    try:
        st = os.fstat(fileobj.fileno())
    except (OSError, ValueError):
        return
    ent = run.flocks.get((st.st_dev, st.st_ino))
    if ent is not None:
        if ent["ex"] is not None and ent["ex"][0] == task:
            ent["ex"] = None
        ent["sh"].pop(task, None)


class FileProxy(object):
    """A file object opened for writing through the seam.  Data-changing methods are seam events
    when they reach the kernel: with the *write-through* knob every ``write`` is flushed at once
    (buffering is an optimisation, not a guarantee), otherwise only flush / truncate / close are
    kernel-visible."""

    def __init__(self, f, run, path):
        object.__setattr__(self, "_f", f)
        object.__setattr__(self, "_run", run)
        object.__setattr__(self, "_path", path)
        object.__setattr__(self, "_dirty", False)
        object.__setattr__(self, "_epoch", run.epoch)

    def __getattr__(self, name):
        return getattr(self._f, name)

    def __setattr__(self, name, value):
        setattr(self._f, name, value)

    def __iter__(self):
        return iter(self._f)

    def __enter__(self):
        self._f.__enter__()
        return self

    def __exit__(self, *a):
        self.close()
        return False

    def _ev(self, kind, op, extra=None):
        run = _active()
        if run is not None and run is self._run:
            run.event(kind, op, self._path, extra)

    def write(self, data):
        if isinstance(self._f, io.RawIOBase):
            # unbuffered: every write is a system call, and it may be short
            self._ev("write", "write-raw", extra=len(data))
            k = self._run.short(len(data))
            return self._f.write(data if k == len(data) else bytes(data)[:k])
        if self._run.write_through:
            self._ev("write", "write", extra=len(data))
            n = self._f.write(data)
            self._f.flush()
            return n
        object.__setattr__(self, "_dirty", True)
        return self._f.write(data)

    def writelines(self, lines):
        lines = list(lines)
        if self._run.write_through:
            for ln in lines:
                self.write(ln)
            return None
        object.__setattr__(self, "_dirty", True)
        return self._f.writelines(lines)

    def truncate(self, *a):
        self._ev("truncate", "truncate")
        object.__setattr__(self, "_dirty", False)
        return self._f.truncate(*a)

    def flush(self):
        if self._dirty:
            self._ev("write", "flush")
            object.__setattr__(self, "_dirty", False)
        return self._f.flush()

    def close(self):
        if self._f.closed:
            return None
        run = _active()
        task = getattr(_tl, "task", 0)
        if self._epoch != self._run.epoch or (
                self._run.dead_tasks and (task in self._run.dead_tasks or self._run.crashed)):
            # a dead process closes nothing: buffered bytes are lost with it
            self._discard()
            return None
        if run is not None and run is self._run:
            try:
                run.event("close-w", "close", self._path, extra="dirty" if self._dirty else None)
            except SimCrash:
                # buffered bytes die with the process
                self._discard()
                raise
            except OSError:
                self._discard()
                raise
        # closing drops the simulated advisory lock
        _flock_release(self._run, self._f, task)
        object.__setattr__(self, "_dirty", False)
        return self._f.close()

    def _discard(self):
        """Close the descriptor without letting buffered bytes reach the file."""
        f = self._f
        try:
            raw = getattr(f, "buffer", f)
            raw = getattr(raw, "raw", raw)
            fd = raw.fileno()
            # re-point the descriptor at /dev/null so the implicit flush goes nowhere
            nul = _real[("os", "open")](os.devnull, os.O_WRONLY)
            os.dup2(nul, fd)
            os.close(nul)
            f.close()
        except Exception:
            pass


class _SeededNames(object):
    """Replacement for tempfile._RandomNameSequence: per-run counter (determinism only)."""

    def __iter__(self):
        return self

    def __next__(self):
        run = getattr(_tl, "run", None)
        if run is None:
            _SeededNames.global_counter += 1
            return "g%07x" % _SeededNames.global_counter
        run.tmp_counter += 1
        return "%07x" % run.tmp_counter

    global_counter = 0


_installed = False


def install():
    """Install the wrappers (idempotent)."""
    global _installed
    if _installed:
        return
    _installed = True
    _real[("os", "open")] = os.open
    for name in ("stat", "lstat"):
        _patch(os, name, _mk_stat(name))
    _patch(os, "mkdir", _mk_single("mkdir", "mkdir"))
    _patch(os, "rmdir", _mk_single("rmdir", "rmdir"))
    rm = _mk_single("remove", "remove")
    _patch(os, "remove", rm)
    _patch(os, "unlink", _mk_single("unlink", "remove"))
    _patch(os, "chmod", _mk_single("chmod", "chmod"))
    _patch(os, "rename", _mk_rename("rename"))
    _patch(os, "replace", _mk_rename("replace"))
    _patch(os, "open", _os_open)
    _real[("os", "listdir")] = os.listdir
    _patch(os, "listdir", _listdir)
    _patch(io, "open", _open)
    _patch(builtins, "open", _open)
    _patch(fcntl, "flock", _flock)
    for name, pos in (("sendfile", 0), ("copy_file_range", 1), ("write", 0), ("ftruncate", 0)):
        if hasattr(os, name):
            _patch(os, name, _mk_fd_write(name, pos))
    tempfile._name_sequence = _SeededNames()
    if hasattr(os, "register_at_fork"):
        _patch(os, "register_at_fork", _register_at_fork)
    # tempfile binds "from os import ..."? no: it uses _os.<fn> and _io.open -> patched attrs.


def _register_at_fork(*, before=None, after_in_parent=None, after_in_child=None):
    """Fork handlers registered by code under simulation are kept per run (simulated processes are tasks with
    a fork-view of the store: the scheduler runs the after_in_child handlers when such a task starts)."""
    run = _active()
    if run is None:
        return _real[("os", "register_at_fork")](before=before, after_in_parent=after_in_parent,
                                                 after_in_child=after_in_child)
    if after_in_child is not None:
        run.at_fork_child.append(after_in_child)
    return None


def real_open(*a, **kw):
    return _REAL_OPEN(*a, **kw)
