"""SEQ-I: sequential histories in which some calls are INTERRUPTED -- the process dies at a seam
event (then a new instance is opened on what is on disk) or one I/O error is injected -- and the
history simply goes on.  This is the "state left behind by an earlier failed / interrupted call"
dimension: the single-call CRASH / FAULT engines start from clean states only.

After an interruption the reference model cannot know what the call left behind, so it is
re-synchronised from what the public API shows (that observation is itself checked against what
C10 / C13 / C09 allow).  From then on only API-level oracles are used: call outcomes against the
model, every pid and every (pid, format) read back after every step.  Object presence is taken from
the directory (an interrupted call may leave an unreferenced object or a stale list line behind,
which the properties allow), but a bound pid must always find its object."""

import hashlib
import traceback

from . import seam
from . import model as M
from . import world as W
from .engines import SeqEngine, Violation, _jsonable, _expsig, _outsig
from .single import ERRNOS, NOTFOUND_OK

OBJ_OPS = ("store", "tag", "delete")
META_OPS = ("smeta", "dmeta")


class SeqIEngine(SeqEngine):
    def __init__(self, prog, **kw):
        SeqEngine.__init__(self, prog, **kw)
        self.interrupted = False
        self.kinds = set()

    def props(self):
        p = set()
        if "crash" in self.kinds:
            p.add("C10")
        if "fault" in self.kinds:
            p.add("C13")
        return p or set(["C13"])

    # -- the history -------------------------------------------------------------------------------
    def _run(self):
        w = self.world
        res = self.res
        with seam.activate(w.run, 0):
            self.open()
            self.model = w.model()
            for i, op in enumerate(self.prog["ops"]):
                if self.res.violations:
                    break
                if op["op"] == "restart":
                    self.open()
                    continue
                if self.interrupted:
                    self.sync_objects()
                plan = op.get("int")
                if plan and op["op"] in OBJ_OPS + META_OPS and op.get("pid") is not None:
                    self.interrupted_call(i, op, plan)
                else:
                    self.normal_call(i, op)
                if not self.res.violations:
                    self.api_probes(i, op)

    def open(self):
        w = self.world
        w.open_store()
        if w.knobs.get("two_instances"):
            w.second()  # both clients exist before any interruption plan is armed

    def normal_call(self, i, op):
        w, mdl = self.world, self.model
        exp = mdl.apply(op)
        mark = len(w.run.log)
        out, extra = w.exec_op(op)
        self.res.flags.add("op:" + op["op"])
        if self.interrupted and out == ("exc", "PidRefsDoesNotExist") and op["op"] in ("delete", "retrieve", "hexdigest"):
            # rejected for an unknown pid: the store is unchanged (C17), also in states interruptions left behind
            muts = [e.brief() for e in w.run.log[mark:] if e.kind in self.RO_FORBIDDEN and e.cls not in ("input", "sandbox")]
            if muts:
                self.res.violations.append(Violation(
                    {"C17"}, "rejected-changed", "seqi:unknown-pid-rejection-wrote:%s" % op["op"],
                    {"op": op, "pid": w.pids[op["pid"]], "mutating_events": muts[:8], "interruptions": self.history}, i))
                return
        if not exp.matches(out):
            if not self.interrupted:
                # an ordinary disagreement before any interruption: not this engine's subject
                self.res.violations.append(Violation({"SETUP"}, "pre", "pre:%s" % op["op"], {"op": op}, i))
                return
            self.res.violations.append(Violation(
                self.props(), "after-interruption", "seqi:outcome:%s:%s->%s" % (op["op"], _expsig(exp), _outsig(out)),
                {"op": op, "expected": exp.describe(), "got": [out[0], _jsonable(out[1])], "msg": extra.get("msg"),
                 "interruptions": self.history}, i))

    history = None

    def interrupted_call(self, i, op, plan):
        w, mdl, res = self.world, self.model, self.res
        if self.history is None:
            self.history = []
        pre = mdl.clone()
        run = w.run
        kind = plan["kind"]
        if kind == "crash":
            run.crash_at, run.crash_count, run.crashed = plan["index"], 0, False
            run.crash_kinds = seam.MUTATING
            run.crash_snapshot = None
            try:
                out, extra = w.exec_op(op)
            except seam.SimCrash:
                out = None
            run.crash_at = None
            if not run.crashed:
                return self._as_normal(i, op, pre, out, extra)
            # the process is dead; a new one opens the store
            site = {"kind": run.crash_event.kind, "cls": run.crash_event.cls}
            run.dead_tasks.clear()
            run.crashed = False
            run.all_dead = False
            res.stats.setdefault("faults", {})
            res.stats["faults"]["crash:%s" % site["kind"]] = res.stats["faults"].get("crash:%s" % site["kind"], 0) + 1
            self.kinds.add("crash")
            self.interrupted = True
            self.history.append({"step": i, "op": op, "crash": site})
            self.open()
            self.resync(i, op, pre, crashed=True)
        else:
            fp = seam.FaultPlan(plan["index"], ERRNOS[plan.get("errno", "EIO")], plan.get("persistent") or False)
            run.fault = fp
            out, extra = w.exec_op(op)
            fp.clear()
            run.fault = None
            if fp.fired is None:
                return self._as_normal(i, op, pre, out, extra)
            site = {"kind": fp.fired.kind, "cls": fp.fired.cls, "errno": plan.get("errno", "EIO"),
                    "persistent": plan.get("persistent") or False}
            k = "%s:%s" % (site["kind"], site["errno"])
            res.stats.setdefault("faults", {})
            res.stats["faults"][k] = res.stats["faults"].get(k, 0) + 1
            self.kinds.add("fault")
            self.interrupted = True
            self.history.append({"step": i, "op": op, "fault": site, "outcome": _outsig(out)})
            if out[0] == "ok":
                # success reported: the whole effect must be there (checked by the probes)
                exp = mdl.apply(op)
                if not exp.matches(out):
                    res.violations.append(Violation(self.props(), "after-interruption", "seqi:masked-fault-outcome:%s" % op["op"],
                                                    {"op": op, "got": [out[0], _jsonable(out[1])], "expected": exp.describe(),
                                                     "interruptions": self.history}, i))
                return
            self.resync(i, op, pre, crashed=False)

    def _as_normal(self, i, op, pre, out, extra):
        """The plan did not fire (index beyond the call's events): an ordinary call."""
        exp = self.model.apply(op)
        if out is None or not exp.matches(out):
            if not self.interrupted:
                self.res.violations.append(Violation({"SETUP"}, "pre", "pre:%s" % op["op"], {"op": op}, i))
            else:
                self.res.violations.append(Violation(
                    self.props(), "after-interruption", "seqi:outcome:%s:%s->%s" % (op["op"], _expsig(exp), _outsig(out or ("exc", "?"))),
                    {"op": op, "expected": exp.describe(), "interruptions": self.history}, i))

    # -- read-only calls in states left behind by interruptions (C17) ------------------------------
    RO_FORBIDDEN = seam.MUTATING - frozenset(["flock"])

    def ro(self, op, i=None):
        """A read-only call (retrieve_object / retrieve_metadata) in whatever state the interruptions left
        behind: when it SUCCEEDS it must not have changed the store (C17).  Cheap detection through the seam
        log; the directory snapshot is compared only when the call issued a mutating file operation."""
        w = self.world
        mark = len(w.run.log)
        before = None
        if self.ro_armed:
            before = W.snapshot(w.store_root)
        out, extra = w.exec_op(op)
        muts = [e.brief() for e in w.run.log[mark:] if e.kind in self.RO_FORBIDDEN and e.cls not in ("input", "sandbox")]
        if muts and out[0] == "ok":
            if before is None:
                # first sight: arm the snapshots and let the rest of the history show it again (the store is
                # deterministic: the same state and call recur at the next probe pass) -- and report now if the
                # mutation is plainly visible in the permanent tree
                self.ro_armed = True
                if any(("refs/" in m or "objects" in m or "metadata" in m) and "tmp" not in m for m in muts):
                    self.res.violations.append(Violation(
                        {"C17"}, "readonly-changed", "seqi:readonly-call-wrote:%s" % op["op"],
                        {"op": op, "pid": w.pids[op["pid"]], "mutating_events": muts[:8], "interruptions": self.history}, i))
            elif W.snapshot(w.store_root) != before:
                self.res.violations.append(Violation(
                    {"C17"}, "readonly-changed", "seqi:readonly-call-changed:%s" % op["op"],
                    {"op": op, "pid": w.pids[op["pid"]], "mutating_events": muts[:8], "interruptions": self.history}, i))
        return out, extra

    ro_armed = False

    # -- re-synchronisation from observation -------------------------------------------------------
    def sync_objects(self):
        a = self.world.alpha()
        self.model.objs = set(a["objs"]) & set(self.model.cid_bytes)

    def resync(self, i, op, pre, crashed):
        w, res = self.world, self.res
        mdl = self.model = pre.clone()
        name = op["op"]
        pi = op["pid"]
        pid = w.pids[pi]
        viol = lambda sig, detail: res.violations.append(Violation(
            self.props(), "after-interruption", sig, dict(detail, op=op, interruptions=self.history), i))
        self.sync_objects()
        if name in OBJ_OPS:
            out, _ = self.ro({"op": "retrieve", "pid": pi}, i)
            if res.violations:
                return
            legit = {}
            if pid in pre.pid2cid and pre.pid2cid[pid] in pre.cid_bytes:
                legit[pre.cid_bytes[pre.pid2cid[pid]]] = pre.pid2cid[pid]
            if name == "store":
                legit[w.contents[op["c"]]] = pre.cid_of(w.contents[op["c"]])
            if name == "tag":
                c = pre.resolve_cid(op["cid"])
                if c in pre.cid_bytes:
                    legit[pre.cid_bytes[c]] = c
            pre_exp = mdl.op_retrieve({"pid": pi})  # what the pid showed before (objects as on disk now)
            if not crashed and name in ("store", "tag"):
                # C13: after a failed store_object / tag_object the pid is unbound or its earlier binding
                # is intact, i.e. it shows exactly what it showed before
                if not pre_exp.matches(out):
                    return viol("seqi:failed-%s-changed-the-pid:%s->%s" % (name, _expsig(pre_exp), _outsig(out)),
                                {"expected": pre_exp.describe(), "got": [out[0], _jsonable(out[1])]})
            elif out[0] == "ok":
                if out[1] not in legit:
                    return viol("seqi:wrong-bytes:%s" % name, {"got": _jsonable(out[1])})
                self._bind(mdl, pid, legit[out[1]])
            elif pre_exp.matches(out) and not crashed:
                pass  # a failed delete_object that changed nothing observable
            else:
                if out[1] not in NOTFOUND_OK:
                    return viol("seqi:retrieve-%s:%s" % (out[1], name), {})
                # interrupted / failed in the middle: the documented way out is delete_object(pid)
                o2, e2 = w.exec_op({"op": "delete", "pid": pi})
                if not (o2[0] == "ok" or o2 == ("exc", "PidRefsDoesNotExist")):
                    return viol("seqi:recovery-delete:%s:%s" % (name, _outsig(o2)), {"msg": e2.get("msg")})
                self._unbind(mdl, pid)
                if o2[0] == "ok":
                    for k in [k for k in mdl.meta if k[0] == pid]:
                        del mdl.meta[k]
            if name == "delete":
                self._resync_meta(mdl, pi, None, pre, viol)
        else:
            self._resync_meta(mdl, pi, op, pre, viol)
        self.sync_objects()

    @staticmethod
    def _bind(mdl, pid, cid):
        old = mdl.pid2cid.get(pid)
        if old is not None and old != cid:
            SeqIEngine._unbind(mdl, pid)
        mdl.pid2cid[pid] = cid
        lst = mdl.cid2pids.setdefault(cid, [])
        if pid not in lst:
            lst.append(pid)
        mdl.objs.add(cid)

    @staticmethod
    def _unbind(mdl, pid):
        cid = mdl.pid2cid.pop(pid, None)
        if cid is not None:
            lst = mdl.cid2pids.get(cid, [])
            if pid in lst:
                lst.remove(pid)
            if not lst:
                mdl.cid2pids.pop(cid, None)

    def _resync_meta(self, mdl, pi, op, pre, viol):
        """Every document of the pid: what retrieve_metadata shows must be a version some call supplied
        (the one before, or the one the interrupted call was writing), or absent."""
        w = self.world
        pid = w.pids[pi]
        fmts = [None] + list(range(len(w.formats)))
        for f in fmts:
            key = (pid, mdl.fmt(None if f is None else w.formats[f]))
            out, _ = self.ro({"op": "rmeta", "pid": pi, "fmt": f})
            if self.res.violations:
                return
            allowed = set()
            if key in pre.meta:
                allowed.add(pre.meta[key])
            target = op is not None and op["op"] == "smeta" and \
                mdl.fmt(None if op.get("fmt") is None else w.formats[op["fmt"]]) == key[1]
            if target:
                allowed.add(w.mcontents[op["m"]])
            if out[0] == "ok":
                if out[1] not in allowed:
                    p = self.props() | {"C09"}
                    self.res.violations.append(Violation(p, "after-interruption", "seqi:document-not-a-supplied-version",
                                                        {"pid": pid, "fmt": f, "size": len(out[1]), "op": op,
                                                         "interruptions": self.history}))
                    return
                mdl.meta[key] = out[1]
            elif out[1] in ("ValueError", "FileNotFoundError"):
                # absent: fine when it was absent before, or when a delete was under way
                may_vanish = key not in pre.meta or op is None or op["op"] == "dmeta"
                if not may_vanish:
                    viol("seqi:document-lost:%s" % (op["op"] if op else "delete"), {"pid": pid, "fmt": f})
                    return
                mdl.meta.pop(key, None)
            else:
                viol("seqi:rmeta-%s" % out[1], {"pid": pid, "fmt": f})
                return

    # -- API-level probes after every step ----------------------------------------------------------
    def api_probes(self, i, op):
        w, mdl, res = self.world, self.model, self.res
        if not self.interrupted:
            return
        for pi, pid in enumerate(w.pids):
            pexp = mdl.op_retrieve({"pid": pi})
            out, _ = self.ro({"op": "retrieve", "pid": pi}, i)
            if res.violations:
                return
            if not pexp.matches(out):
                # partial reference conditions of an interrupted pid are legitimate until it is re-bound
                if not pexp.has_ok and out[0] == "exc" and out[1] in NOTFOUND_OK | {"PidRefsDoesNotExist"}:
                    continue
                res.violations.append(Violation(
                    self.props(), "after-interruption", "seqi:probe:retrieve:%s->%s" % (_expsig(pexp), _outsig(out)),
                    {"after": op, "pid": pid, "expected": pexp.describe(), "got": [out[0], _jsonable(out[1])],
                     "interruptions": self.history}, i))
                return
        for pi, pid in enumerate(w.pids):
            for f in [None] + list(range(len(w.formats))):
                pexp = mdl.op_rmeta({"pid": pi, "fmt": f})
                out, _ = self.ro({"op": "rmeta", "pid": pi, "fmt": f}, i)
                if res.violations:
                    return
                if not pexp.matches(out):
                    p = self.props() | ({"C09"} if out[0] == "ok" else set())
                    res.violations.append(Violation(
                        p, "after-interruption", "seqi:probe:rmeta:%s->%s" % (_expsig(pexp), _outsig(out)),
                        {"after": op, "pid": pid, "fmt": f, "expected": pexp.describe(),
                         "got": [out[0], _jsonable(out[1])], "interruptions": self.history}, i))
                    return


def run_seqi(prog, **kw):
    return SeqIEngine(prog, **kw).run()


def gen_seqi_program(seed, tier="quick"):
    """A C05/C11-style history with interruptions sprinkled over the mutating calls."""
    import random
    from . import gen
    rng = random.Random("seqi:%d" % seed)
    prof = rng.choice(["C05", "C05", "C11", "C04"])
    prog = gen.gen_seq_program(seed, prof, tier, mp=rng.random() < 0.15, length=rng.randint(8, 30))
    ops = []
    for op in prog["ops"]:
        if op["op"] in ("raw", "div", "restart") and rng.random() < 0.7:
            continue
        if op["op"] == "scribble":
            continue
        if op["op"] == "raw":
            continue
        op = dict(op)
        if op["op"] in OBJ_OPS + META_OPS and op.get("pid") is not None and op.get("kind") != "missing" \
                and rng.random() < 0.3:
            if rng.random() < 0.5:
                op["int"] = {"kind": "crash", "index": rng.randrange(0, 16)}
            else:
                op["int"] = {"kind": "fault", "index": rng.randrange(0, 22),
                             "errno": rng.choice(["EIO", "ENOSPC", "EACCES"]),
                             "persistent": rng.choice([False, True, "noremove"])}
        ops.append(op)
    prog["ops"] = ops
    prog["engine"] = "seqi"
    prog["knobs"]["write_through"] = rng.random() < 0.5
    # the extra never-bound pid of the invalid-call grammar is not needed here
    return prog
