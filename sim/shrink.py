"""Minimisation of a failing case: delta debugging over the list-shaped parts of a program
(set-up operations, program operations, per-task operations, pre-emptions), then argument
simplification.  Every candidate is re-executed from scratch; a candidate is kept when the same
violation class (``sig``) of the same property persists."""

import copy
import time


def _ddmin(items, test, deadline):
    """Classic ddmin: smallest sub-list (by chunk removal) for which test(sublist) is True."""
    n = 2
    items = list(items)
    while len(items) >= 1 and time.time() < deadline:
        chunk = max(len(items) // n, 1)
        reduced = False
        i = 0
        while i < len(items) and time.time() < deadline:
            cand = items[:i] + items[i + chunk:]
            if test(cand):
                items = cand
                n = max(n - 1, 2)
                reduced = True
            else:
                i += chunk
        if not reduced:
            if chunk == 1:
                break
            n = min(n * 2, len(items))
    return items


def _paths(prog):
    """List-shaped dimensions of a program, as accessor paths."""
    out = []
    if isinstance(prog.get("setup"), list):
        out.append(("setup",))
    if isinstance(prog.get("ops"), list):
        out.append(("ops",))
    if isinstance(prog.get("tasks"), list):
        for i in range(len(prog["tasks"])):
            out.append(("tasks", i))
    return out


def _get(prog, path):
    x = prog
    for p in path:
        x = x[p]
    return x


def _set(prog, path, val):
    x = prog
    for p in path[:-1]:
        x = x[p]
    x[path[-1]] = val


def shrink(prog, fails, budget_s=60.0):
    """``fails(prog) -> bool`` re-runs the candidate.  Returns the minimised program."""
    deadline = time.time() + budget_s
    best = copy.deepcopy(prog)

    def attempt(c):
        nonlocal best
        try:
            ok = fails(c)
        except Exception:
            ok = False
        if ok:
            best = c
        return ok

    changed = True
    rounds = 0
    while changed and time.time() < deadline and rounds < 4:
        rounds += 1
        changed = False
        for path in _paths(best):
            items = _get(best, path)
            if not items:
                continue

            def test(sub, path=path):
                c = copy.deepcopy(best)
                _set(c, path, sub)
                return attempt(c)
            before = len(items)
            _ddmin(items, test, deadline)
            if len(_get(best, path)) < before:
                changed = True
        # pre-emptions
        pre = best.get("preempt")
        if pre:
            keys = sorted(pre, key=lambda k: int(k))

            def testp(sub):
                c = copy.deepcopy(best)
                c["preempt"] = dict((k, pre[k]) for k in sub)
                return attempt(c)
            _ddmin(keys, testp, deadline)
            if len(best.get("preempt", {})) < len(keys):
                changed = True
                pre = best.get("preempt")
        # drop empty tasks
        if isinstance(best.get("tasks"), list) and len(best["tasks"]) > 2:
            for i in range(len(best["tasks"]) - 1, -1, -1):
                if not best["tasks"][i]:
                    c = copy.deepcopy(best)
                    del c["tasks"][i]
                    if attempt(c):
                        changed = True
    # argument / knob simplification
    for simp in _simplifications(best):
        if time.time() >= deadline:
            break
        c = simp(copy.deepcopy(best))
        if c is not None and c != best:
            attempt(c)
    return best


def _simplifications(prog):
    out = []

    def knob(name, val):
        def f(c):
            if c.get("knobs", {}).get(name) == val:
                return None
            c.setdefault("knobs", {})[name] = val
            return c
        return f
    out += [knob("mp", False), knob("write_through", False), knob("blksize", None),
            knob("shuffle_listdir", False), knob("spurious", 0.0), knob("wake", "fifo")]

    def simple_cfg(c):
        c["cfg"] = dict(c["cfg"], store_depth=3, store_width=2)
        return c
    out.append(simple_cfg)

    def simple_algo(c):
        c["cfg"] = dict(c["cfg"], store_algorithm="SHA-256")
        return c
    out.append(simple_algo)

    def small_contents(c):
        c["contents"] = [[min(s[0], 3 + i), s[1]] if isinstance(s, list) else s
                         for i, s in enumerate(c["contents"])]
        return c
    out.append(small_contents)

    def strip_args(c):
        def strip(op):
            if isinstance(op, dict) and op.get("op") == "store":
                for k in ("add", "off", "short"):
                    op.pop(k, None)
        for path in _paths(c):
            for op in _get(c, path):
                strip(op)
        return c
    out.append(strip_args)

    def str_kind(c):
        for path in _paths(c):
            for op in _get(c, path):
                if isinstance(op, dict) and op.get("kind") in ("path", "file"):
                    op["kind"] = "str"
        return c
    out.append(str_kind)
    return out
