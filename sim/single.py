"""Single-call engines: FAULT (one injected OSError), CRASH (process death at a seam event) and
ATOM (invariant monitor at every seam event).  All three run a sequential set-up history, then
one API call under a plan."""

import errno
import hashlib
import os
import shutil
import traceback

from . import seam
from . import model as M
from . import world as W
from .engines import RunResult, Violation, _jsonable, _expsig, _outsig
from . import sched as S

ERRNOS = {"EIO": errno.EIO, "ENOSPC": errno.ENOSPC, "EACCES": errno.EACCES}
NOTFOUND_OK = frozenset(["PidRefsDoesNotExist", "OrphanPidRefsFileFound", "RefsFileExistsButCidObjMissing",
                         "PidNotFoundInCidRefsFile"])


def run_setup(w, mdl, ops):
    """Sequential set-up; returns None or a SETUP violation."""
    for i, op in enumerate(ops):
        exp = mdl.apply(op)
        out, extra = w.exec_op(op)
        if not exp.matches(out):
            return Violation({"SETUP"}, "setup", "setup:%s" % op["op"],
                             {"op": op, "got": [out[0], _jsonable(out[1])], "expected": exp.describe()}, i)
    d = W.compare_alpha(w.alpha(), mdl)
    if d:
        return Violation({"SETUP"}, "setup", "setup:alpha", {"diffs": d[:4]})
    return None


def observe_all(w, mdl_pids=None):
    """What the public API shows for every pid and every (pid, format): used for 'every other
    pid's data untouched' comparisons."""
    obs = {}
    for pi in range(len(w.pids)):
        out, _ = w.exec_op({"op": "retrieve", "pid": pi})
        obs[("obj", pi)] = out
        for f in [None] + list(range(len(w.formats))):
            out, _ = w.exec_op({"op": "rmeta", "pid": pi, "fmt": f})
            obs[("meta", pi, f)] = out
    return obs


def expect_obs(mdl, key):
    if key[0] == "obj":
        return mdl.op_retrieve({"pid": key[1]})
    return mdl.op_rmeta({"pid": key[1], "fmt": key[2]})


def with_left_object(pre, w, call, a):
    """A store_object that failed / was interrupted may leave its complete object behind
    (unreferenced); pids already tagged to that cid then see it."""
    cur = pre.clone()
    if call["op"] == "store":
        cid = pre.cid_of(w.contents[call["c"]])
        if cid in a["objs"]:
            cur.objs.add(cid)
    return cur


def leaked_locks(st):
    leaked = []
    for name in sorted(vars(st)):
        val = getattr(st, name)
        if "locked" in name:
            try:
                items = list(val)
            except TypeError:
                continue
            if items:
                leaked.append((name, items))
        elif isinstance(val, S.SimLock) and val.locked():
            leaked.append((name, "held"))
    return leaked


def call_pid(op):
    return op.get("pid")


def may_change(call, key):
    """Observation keys the interrupted / failed call is allowed to affect."""
    pid = call.get("pid")
    if pid is None or key[1] != pid:
        return False
    name = call["op"]
    if name in ("store", "tag"):
        return key[0] == "obj"
    if name == "delete":
        return True
    if name in ("smeta", "dmeta"):
        if key[0] != "meta":
            return False
        if name == "dmeta" and call.get("fmt") is None:
            return True
        f = call.get("fmt")
        return key[2] == f or (f in (None, 0) and key[2] in (None, 0))
    return False


class SingleBase(object):
    def __init__(self, prog, keep=False):
        self.prog = prog
        self.keep = keep
        self.res = RunResult()
        self.world = None
        self.extra_sandboxes = []

    def run(self):
        res = self.res
        try:
            self.world = W.World(self.prog)
            self._run()
        except Exception:
            res.harness_error = traceback.format_exc()
        finally:
            if self.world is not None:
                res.events = self.world.run.seq
                kn = self.world.knobs
                for k in ("relstore", "two_instances", "short_writes"):
                    if kn.get(k):
                        res.flags.add("knob:" + k)
                if kn.get("pid_skin"):
                    res.flags.add("knob:pid-skin-" + kn["pid_skin"][0])
                for k in ("short-write", "exdev"):
                    n = self.world.run.counts.get(k)
                    if n:
                        res.stats.setdefault("faults", {})
                        res.stats["faults"][k] = res.stats["faults"].get(k, 0) + n
                res.digest = self.world.run.digest()
                if not self.keep:
                    self.world.cleanup()
            for d in self.extra_sandboxes:
                shutil.rmtree(d, ignore_errors=True)
        return res

    def v(self, props, kind, sig, detail):
        self.res.violations.append(Violation(props, kind, sig, detail))


# ------------------------------------------------------------------------------------------------
# FAULT
# ------------------------------------------------------------------------------------------------

class FaultEngine(SingleBase):
    """One injected failure per run (the property's quantifier)."""

    def _run(self):
        w, res, prog = self.world, self.res, self.prog
        call = prog["call"]
        fspec = prog["fault"]
        with seam.activate(w.run, 0):
            w.open_store()
            mdl = w.model()
            sv = run_setup(w, mdl, prog.get("setup", []))
            if sv is not None:
                res.violations.append(sv)
                return
            pre = mdl.clone()
            pre_obs = observe_all(w)
            kinds = seam.FAULT_KINDS_CORE | seam.FAULT_KINDS_EXT if fspec.get("kinds") == "ext" else seam.FAULT_KINDS_CORE
            if fspec.get("exclude"):
                kinds = kinds - frozenset(fspec["exclude"])
            pers = fspec.get("persistent") or False
            fp = seam.FaultPlan(fspec["index"], ERRNOS[fspec.get("errno", "EIO")], pers, kinds)
            w.run.fault = fp
            mark = len(w.run.log)
            ob = None
            if prog.get("atom"):
                # C09 also holds while a call fails part-way: the invariant monitor runs during the faulted call
                cids = [mdl.cid_of(c) for c in w.contents] + [mdl.resolve_cid(["x", k]) for k in range(3)]
                cids += [c.upper() for c in cids]
                ob = AtomObserver(w, w.mcontents, cids, mdl.algo)
                with seam.passthrough():
                    ob.check(None)
                w.run.observers.append(ob)
            out, extra = w.exec_op(call)
            fp.clear()
            w.run.fault = None
            if out == ("exc", "DoesNotTerminate"):
                self.v({"C08", "C13"}, "liveness", "liveness:call-does-not-return:%s" % call["op"],
                       {"call": call, "setup": prog.get("setup", []), "msg": extra.get("msg"),
                        "fault_site": None if fp.fired is None else {"kind": fp.fired.kind, "cls": fp.fired.cls}})
                res.stats["sites"] = fp.count
                return
            if ob is not None:
                w.run.observers.remove(ob)
                with seam.passthrough():
                    if ob.violation is None:
                        ob.check(None)
                res.stats["probes"] = {"observation_points": ob.points}
                if ob.violation is not None and fp.fired is not None:
                    self.v({"C09"}, "atomicity", "atom-under-fault:%s:%s" % (ob.violation["kind"], call["op"]),
                           {"violation": ob.violation, "call": call, "setup": prog.get("setup", []),
                            "fault_site": {"kind": fp.fired.kind, "cls": fp.fired.cls, "errno": fspec.get("errno", "EIO"),
                                           "persistent": fspec.get("persistent") or False}, "knobs": prog.get("knobs")})
                    res.stats["sites"] = fp.count
                    res.stats["faults"] = {"%s:%s" % (fp.fired.kind, fspec.get("errno", "EIO")): fp.fired_n}
                    return
            res.stats["sites"] = fp.count
            res.flags.add("call:" + call["op"])
            if fp.fired is None:
                res.flags.add("nofire")
                res.stats["nofire"] = True
                return
            ev = fp.fired
            site = {"kind": ev.kind, "cls": ev.cls, "op": ev.op, "errno": fspec.get("errno", "EIO"),
                    "persistent": fspec.get("persistent") or False, "times": fp.fired_n}
            res.stats["site"] = site
            res.stats["faults"] = {"%s:%s" % (ev.kind, fspec.get("errno", "EIO")): fp.fired_n}
            res.flags.add("out:" + _outsig(out))
            name = call["op"]
            pid = call_pid(call)
            detail = {"call": call, "setup": prog.get("setup", []), "fault_site": site,
                      "outcome": [out[0], _jsonable(out[1])], "msg": extra.get("msg")}
            a = w.alpha()
            post_obs = observe_all(w)
            # (3) every other pid untouched -- always (seen through the API, given the objects present)
            base = with_left_object(pre, w, call, a)
            for key in pre_obs:
                if not may_change(call, key) and not expect_obs(base, key).matches(post_obs.get(key)):
                    self.v({"C13"}, "fault", "fault:other-pid-changed:%s" % name,
                           dict(detail, key=_jsonable(key), before=_jsonable(pre_obs[key]), after=_jsonable(post_obs.get(key))))
                    return
            if name == "div":
                # C06 under an I/O error: "a valid verdict never rejects or deletes anything" -- whatever else
                # the call does (it may well fail with the I/O error), with CORRECT expectations it must not
                # answer with a mismatch error and must not remove the object
                m2 = pre.clone()
                exp = m2.apply(call)
                if exp.has_ok:
                    cid = pre.cid_of(w.contents[call["c"]])
                    if out[0] == "exc" and out[1] in ("NonMatchingChecksum", "NonMatchingObjSize"):
                        self.v({"C06"}, "fault", "fault:valid-verdict-rejected:%s" % out[1], dict(detail))
                        return
                    if cid in pre.objs and cid not in a["objs"]:
                        self.v({"C06", "C04"}, "fault", "fault:valid-verdict-deleted-object", dict(detail))
                        return
                return
            if out[0] == "ok":
                # (1) success reported => whole effect achieved (residue ignored)
                m2 = pre.clone()
                exp = m2.apply(call)
                if not exp.matches(out):
                    self.v({"C13"}, "fault", "fault:ok-but-model-says:%s:%s" % (name, _expsig(exp)),
                           dict(detail, expected=exp.describe()))
                    return
                d = W.compare_alpha(a, m2, check_residue=False)
                if d:
                    self.v({"C13"}, "fault", "fault:success-reported-effect-partial:%s:%s" % (
                        name, ",".join(sorted(set(x[0] for x in d)))), dict(detail, diffs=d[:5]))
                    return
                cur = m2
                res.flags.add("masked")
            else:
                res.flags.add("raised")
                # documented non-I/O outcomes (e.g. a rejected re-bind) that the model predicts too
                m_try = pre.clone()
                exp0 = m_try.apply(call)
                cur = pre.clone()
                if name in ("store", "tag"):
                    if exp0.matches(out) and out[0] == "exc":
                        # the fault was masked and the call was rejected exactly as without it
                        cur = m_try
                    # a failed store may leave its (complete) object behind, unreferenced
                    if name == "store":
                        cid = pre.cid_of(w.contents[call["c"]])
                        if cid in a["objs"]:
                            cur.objs.add(cid)
                    a_cmp = a
                    if site["persistent"] and site["cls"] == "refs/cid" and pid is not None:
                        # A reference list that cannot be opened any more cannot be edited either: the
                        # failed pid may stay behind as a stale line of *that* list (it is unbound for
                        # every look-up, and tagging tolerates it on the retry).  Nothing else is allowed.
                        tcid = pre.cid_of(w.contents[call["c"]]) if name == "store" else pre.resolve_cid(call["cid"])
                        lines = list(a["cidrefs"].get(tcid, []))
                        if w.pids[pid] in lines and w.pids[pid] not in cur.cid2pids.get(tcid, []):
                            lines.remove(w.pids[pid])
                            a_cmp = dict(a, cidrefs=dict(a["cidrefs"]))
                            if lines or tcid in cur.cid2pids:
                                a_cmp["cidrefs"][tcid] = lines
                            else:
                                del a_cmp["cidrefs"][tcid]
                            res.flags.add("stale-line-allowed")
                    d = W.compare_alpha(a_cmp, cur, check_residue=False)
                    if d:
                        self.v({"C13"}, "fault", "fault:failed-%s-left-state:%s" % (
                            name, ",".join(sorted(set(x[0] for x in d)))), dict(detail, diffs=d[:5]))
                        return
                    if pid is not None:
                        k = ("obj", pid)
                        if not expect_obs(cur, k).matches(post_obs[k]):
                            self.v({"C13"}, "fault", "fault:failed-%s-pid-binding-changed" % name,
                                   dict(detail, before=_jsonable(pre_obs[k]), after=_jsonable(post_obs[k])))
                            return
                    # immediate retry without the fault
                    exp = cur.apply(call)
                    out2, extra2 = w.exec_op(call)
                    if not exp.matches(out2):
                        self.v({"C13"}, "fault", "fault:retry-%s:%s->%s" % (name, _expsig(exp), _outsig(out2)),
                               dict(detail, retry=[out2[0], _jsonable(out2[1])], expected=exp.describe(),
                                    retry_msg=extra2.get("msg")))
                        return
                    d = W.compare_alpha(w.alpha(), cur, check_residue=False)
                    if d:
                        self.v({"C13"}, "fault", "fault:retry-%s-state:%s" % (name, ",".join(sorted(set(x[0] for x in d)))),
                               dict(detail, diffs=d[:5]))
                        return
                elif name == "smeta":
                    k = ("meta", pid, call.get("fmt"))
                    if post_obs[k] != pre_obs[k]:
                        self.v({"C13"}, "fault", "fault:failed-smeta-previous-version-lost",
                               dict(detail, before=_jsonable(pre_obs[k]), after=_jsonable(post_obs[k])))
                        return
                    # default-format aliasing: None and the explicit default name the same document
                    d = W.compare_alpha(a, cur, check_residue=False)
                    if d:
                        self.v({"C13"}, "fault", "fault:failed-smeta-left-state:%s" % ",".join(sorted(set(x[0] for x in d))),
                               dict(detail, diffs=d[:5]))
                        return
                else:
                    # failed delete_object / delete_metadata: nothing is promised about the pid itself
                    cur = None
            # (4) C08: nothing left locked, follow-ups complete
            lk = leaked_locks(w.store)
            if lk:
                self.v({"C13", "C08"}, "locked", "locked:after-fault:%s" % name, dict(detail, leaked=_jsonable(lk)))
                return
            fu = []
            if pid is not None:
                fu += [{"op": "delete", "pid": pid}, {"op": "store", "pid": pid, "c": 0, "kind": "str"},
                       {"op": "retrieve", "pid": pid}]
                if name in ("smeta", "dmeta"):
                    fu += [{"op": "smeta", "pid": pid, "fmt": call.get("fmt"), "m": 0}]
            for op in fu:
                o, e = w.exec_op(op)
                if o in (("exc", "Deadlock"), ("exc", "StoreObjectForPidAlreadyInProgress")):
                    self.v({"C13", "C08"}, "locked", "locked:followup-blocked-after-fault:%s" % name,
                           dict(detail, followup=op, got=list(o)))
                    return
                if op["op"] in ("store", "smeta") and o[0] != "ok":
                    self.v({"C13", "C08"}, "followup", "followup-after-fault:%s:%s->%s" % (name, op["op"], _outsig(o)),
                           dict(detail, followup=op, got=[o[0], _jsonable(o[1])], msg=e.get("msg")))
                    return
                if op["op"] == "retrieve" and o != ("ok", w.contents[0]):
                    self.v({"C13", "C08"}, "followup", "followup-after-fault:%s:retrieve" % name,
                           dict(detail, followup=op, got=[o[0], _jsonable(o[1])]))
                    return


def run_fault(prog, **kw):
    return FaultEngine(prog, **kw).run()


# ------------------------------------------------------------------------------------------------
# CRASH
# ------------------------------------------------------------------------------------------------

class CrashEngine(SingleBase):
    def _run(self):
        w, res, prog = self.world, self.res, self.prog
        call = prog["call"]
        cspec = prog["crash"]
        snap_box = W.new_sandbox("snap")
        self.extra_sandboxes.append(snap_box)
        shutil.rmtree(snap_box)
        os.makedirs(os.path.join(snap_box, "input"))
        with seam.activate(w.run, 0):
            w.open_store()
            mdl = w.model()
            sv = run_setup(w, mdl, prog.get("setup", []))
            if sv is not None:
                res.violations.append(sv)
                return
            pre = mdl.clone()
            pre_obs = observe_all(w)
            pre_alpha = w.alpha()
            w.run.crash_at = cspec["index"]
            w.run.crash_kinds = seam.MUTATING
            w.run.crash_snapshot = os.path.join(snap_box, "store")
            try:
                out, extra = w.exec_op(call)
            except seam.SimCrash:
                out = None
            w.run.crash_at = None
            res.stats["sites"] = w.run.crash_count
            res.flags.add("call:" + call["op"])
            if not w.run.crashed:
                res.flags.add("nofire")
                res.stats["nofire"] = True
                return
            ev = w.run.crash_event
            res.stats["site"] = {"kind": ev.kind, "cls": ev.cls, "index": cspec["index"]}
            res.stats["faults"] = {"crash:%s" % ev.kind: 1}
        # a new process opens the store left behind
        w2 = W.World(prog, sandbox=snap_box)
        self.world2 = w2
        detail = {"call": call, "setup": prog.get("setup", []), "crash_site": res.stats["site"]}
        name = call["op"]
        pid = call_pid(call)
        with seam.activate(w2.run, 0):
            try:
                w2.open_store()
            except Exception as e:
                self.v({"C10"}, "crash", "crash:reopen-failed:%s" % type(e).__name__, dict(detail, error=str(e)[:300]))
                return
            a = w2.alpha()
            post_obs = observe_all(w2)
            # (1) every other pid exactly as before (seen through the API, given the objects present)
            base = with_left_object(pre, w, call, a)
            for key in pre_obs:
                if not may_change(call, key) and not expect_obs(base, key).matches(post_obs.get(key)):
                    self.v({"C10"}, "crash", "crash:other-pid-changed:%s" % name,
                           dict(detail, key=_jsonable(key), before=_jsonable(pre_obs[key]), after=_jsonable(post_obs.get(key))))
                    return
            for p2, cid in pre.pid2cid.items():
                if pid is not None and p2 == w.pids[pid]:
                    continue
                if p2 not in a["cidrefs"].get(cid, []):
                    self.v({"C10"}, "crash", "crash:other-pid-lost-from-cid-list:%s" % name, dict(detail, other=p2))
                    return
            if sorted(a["pidrefs"].values()).count(b"") or any(
                    v.decode("utf8", "replace") not in self._known_cids(w) for v in a["pidrefs"].values()):
                self.v({"C10", "C09"}, "crash", "crash:partial-pid-reference:%s" % name,
                       dict(detail, pidrefs=_jsonable(sorted(a["pidrefs"].values()))))
                return
            bad = W.object_hash_ok(a, pre.algo)
            if bad:
                self.v({"C10", "C09"}, "crash", "crash:partial-object:%s" % name, dict(detail, cids=bad))
                return
            versions = set(w.mcontents)
            for key, data in a["meta"].items():
                if data not in versions:
                    self.v({"C10", "C09"}, "crash", "crash:partial-metadata-document:%s" % name,
                           dict(detail, document=list(key), size=len(data)))
                    return
            # (2) the interrupted pid: complete correct bytes or a not-found / inconsistent report
            if pid is not None and name in ("store", "tag", "delete"):
                o = post_obs[("obj", pid)]
                legit = set()
                if w.pids[pid] in pre.pid2cid:
                    legit.add(pre.cid_bytes.get(pre.pid2cid[w.pids[pid]]))
                if name == "store":
                    legit.add(w.contents[call["c"]])
                if name == "tag":
                    legit.add(pre.cid_bytes.get(pre.resolve_cid(call["cid"])))
                if o[0] == "ok":
                    if o[1] not in legit:
                        self.v({"C10"}, "crash", "crash:wrong-bytes:%s" % name, dict(detail, got=_jsonable(o[1])))
                        return
                    res.flags.add("after:retrievable")
                elif o[1] not in NOTFOUND_OK:
                    self.v({"C10"}, "crash", "crash:retrieve-%s:%s" % (o[1], name), dict(detail, got=list(o)))
                    return
                else:
                    res.flags.add("after:" + o[1])
            # (3) delete_object(pid) then store_object(pid, data) always succeeds
            rec_pid = pid if pid is not None else 0
            ci = 1 if len(w2.contents) > 1 else 0
            rec_ops = [("delete", {"op": "delete", "pid": rec_pid}),
                       ("store", {"op": "store", "pid": rec_pid, "c": ci, "kind": "str"})]
            second = cspec.get("second")
            cur = w2
            if second is not None:
                # thorough: a second crash inside the recovery, then the recovery again
                for phase, op in rec_ops:
                    if phase == second.get("phase"):
                        box3 = W.new_sandbox("snap2")
                        self.extra_sandboxes.append(box3)
                        with seam.passthrough():
                            shutil.rmtree(box3)
                            os.makedirs(os.path.join(box3, "input"))
                        r = w2.run
                        r.crash_at, r.crash_count, r.crashed = second["index"], 0, False
                        r.crash_kinds = seam.MUTATING
                        r.crash_snapshot = os.path.join(box3, "store")
                        try:
                            w2.exec_op(op)
                        except seam.SimCrash:
                            pass
                        r.crash_at = None
                        if r.crashed:
                            res.flags.add("double-crash")
                            cur = W.World(prog, sandbox=box3)
                        break
                    else:
                        w2.exec_op(op)
        if cur is not w2:
            with seam.activate(cur.run, 0):
                try:
                    cur.open_store()
                except Exception as e:
                    self.v({"C10"}, "crash", "crash:reopen-failed-2:%s" % type(e).__name__, dict(detail, error=str(e)[:300]))
                    return
                post_obs2 = observe_all(cur)
                base2 = base.clone()
                base2.objs |= set(cur.alpha()["objs"]) & set(base.cid_bytes)
                for key, val in pre_obs.items():
                    if key[1] != pid and key[1] != rec_pid and not expect_obs(base2, key).matches(post_obs2.get(key)):
                        self.v({"C10"}, "crash", "crash:other-pid-changed-by-second-crash:%s" % name,
                               dict(detail, key=_jsonable(key), before=_jsonable(val), after=_jsonable(post_obs2.get(key))))
                        return
        with seam.activate(cur.run, 0):
            for phase, op in rec_ops:
                o, e = cur.exec_op(op)
                if phase == "delete":
                    if not (o[0] == "ok" or o == ("exc", "PidRefsDoesNotExist")):
                        self.v({"C10"}, "crash", "crash:recovery-delete:%s:%s" % (name, _outsig(o)),
                               dict(detail, got=[o[0], _jsonable(o[1])], msg=e.get("msg"), second=second))
                        return
                    res.flags.add("recovery-delete:" + _outsig(o))
                elif o[0] != "ok":
                    self.v({"C10"}, "crash", "crash:recovery-store:%s:%s" % (name, _outsig(o)),
                           dict(detail, got=[o[0], _jsonable(o[1])], msg=e.get("msg"), second=second))
                    return
            o, e = cur.exec_op({"op": "retrieve", "pid": rec_pid})
            if o != ("ok", cur.contents[ci]):
                self.v({"C10"}, "crash", "crash:recovered-pid-not-retrievable:%s" % name,
                       dict(detail, got=[o[0], _jsonable(o[1])], second=second))
                return
            # the others are still untouched after the recovery
            post2 = observe_all(cur)
            base2 = base.clone()
            base2.objs |= set(cur.alpha()["objs"]) & set(base.cid_bytes)
            for key, val in pre_obs.items():
                if key[1] != pid and key[1] != rec_pid and not expect_obs(base2, key).matches(post2.get(key)):
                    self.v({"C10"}, "crash", "crash:other-pid-changed-by-recovery:%s" % name,
                           dict(detail, key=_jsonable(key), before=_jsonable(val), after=_jsonable(post2.get(key))))
                    return

    def _known_cids(self, w):
        m = w._m()
        s = set(m.cid_of(c) for c in w.contents)
        s.update(m.resolve_cid(["x", k]) for k in range(3))
        s.update([c.upper() for c in s])  # tag_object takes the cid as the caller spells it
        return s


def run_crash(prog, **kw):
    return CrashEngine(prog, **kw).run()


def fork_crash_dir(prog):
    """Stub validation: produce the crash state with a real fork()ed child that calls os._exit at
    the chosen seam event; returns the sandbox path of the child's store (caller removes it)."""
    box = W.new_sandbox("fork")
    pid = os.fork()
    if pid == 0:
        try:
            w = W.World(prog, sandbox=box)
            with seam.activate(w.run, 0):
                w.open_store()
                mdl = w.model()
                run_setup(w, mdl, prog.get("setup", []))
                w.run.crash_at = prog["crash"]["index"]
                w.run.crash_kinds = seam.MUTATING
                w.run.crash_snapshot = None
                w.run._die = lambda task, ev: os._exit(0)
                try:
                    w.exec_op(prog["call"])
                except BaseException:
                    pass
        finally:
            os._exit(0)
    os.waitpid(pid, 0)
    return box


# ------------------------------------------------------------------------------------------------
# ATOM
# ------------------------------------------------------------------------------------------------

class AtomObserver(object):
    """Invariant evaluated at every seam event (i.e. between any two kernel-visible steps)."""

    def __init__(self, world, versions, cids, algo):
        self.w = world
        self.versions = set(versions)
        self.cids = set(c.encode() for c in cids)
        self.algo = algo
        self.cache = {}
        self.points = 0
        self.changed_points = set()
        self.violation = None
        self.last_sig = None

    def __call__(self, run, ev):
        if self.violation is not None or ev.kind == "probe":
            return
        self.check(ev)

    def check(self, ev):
        self.points += 1
        root = self.w.store_root
        sig = []
        for top, kind in (("objects", "obj"), ("metadata", "meta"), ("refs/pids", "pid")):
            base = os.path.join(root, top)
            for dp, dns, fns in os.walk(base):
                if dp == base and "tmp" in dns:
                    dns.remove("tmp")
                dns.sort()
                for fn in sorted(fns):
                    if fn.endswith("_delete"):
                        continue
                    p = os.path.join(dp, fn)
                    try:
                        st = os.stat(p)
                    except FileNotFoundError:
                        continue
                    key = (st.st_ino, st.st_size, st.st_mtime_ns)
                    sig.append((p, key))
                    if self.cache.get(p) == key:
                        continue
                    try:
                        data = W._read(p)
                    except FileNotFoundError:
                        continue
                    ok = True
                    if kind == "obj":
                        name = os.path.relpath(p, base).replace(os.sep, "")
                        ok = hashlib.new(self.algo, data).hexdigest() == name
                        what = "object file does not hash to its name"
                    elif kind == "meta":
                        ok = data in self.versions
                        what = "metadata document is not a complete supplied version"
                    else:
                        ok = data in self.cids
                        what = "pid reference does not hold one complete supplied cid"
                    if not ok:
                        self.violation = {"what": what, "path": os.path.relpath(p, root), "size": len(data),
                                          "event": ev.brief() if ev is not None else "final", "kind": kind}
                        return
                    self.cache[p] = key
        sig = tuple(sig)
        if sig != self.last_sig:
            self.last_sig = sig
            if ev is not None:
                self.changed_points.add((ev.kind, ev.cls))


class AtomEngine(SingleBase):
    def _run(self):
        w, res, prog = self.world, self.res, self.prog
        with seam.activate(w.run, 0):
            w.open_store()
            mdl = w.model()
            sv = run_setup(w, mdl, prog.get("setup", []))
            if sv is not None:
                res.violations.append(sv)
                return
            cids = [mdl.cid_of(c) for c in w.contents] + [mdl.resolve_cid(["x", k]) for k in range(3)]
            cids += [c.upper() for c in cids]  # tag_object takes the cid as the caller spells it
            ob = AtomObserver(w, w.mcontents, cids, mdl.algo)
            with seam.passthrough():
                ob.check(None)
            w.run.observers.append(ob)
            calls = prog.get("calls") or [prog["call"]]
            for call in calls:
                exp = mdl.apply(call)
                out, extra = w.exec_op(call)
                res.flags.add("call:" + call["op"])
                if ob.violation is not None:
                    break
            w.run.observers.remove(ob)
            with seam.passthrough():
                if ob.violation is None:
                    ob.check(None)
            res.stats["points"] = ob.points
            res.stats["changed_points"] = sorted(ob.changed_points)
            res.stats["probes"] = {"observation_points": ob.points}
            if ob.violation is not None:
                self.v({"C09"}, "atomicity", "atom:%s:%s" % (ob.violation["kind"], calls[-1]["op"]),
                       {"violation": ob.violation, "calls": calls, "setup": prog.get("setup", []),
                        "knobs": prog.get("knobs")})


def run_atom(prog, **kw):
    return AtomEngine(prog, **kw).run()
