"""The simulated world of one run: a private sandbox directory on tmpfs holding the store root
and the caller's input files, the real FileHashStore instance(s) opened on it, execution of
program operations against it, and the abstraction alpha(directory)."""

import base64
import hashlib
import io
import itertools
import logging
import os
import shutil
import sys
from pathlib import Path

from . import seam
from . import sched as simsched
from . import model as M

REPO = os.environ.get("VERIF_REPO", "/repo")
_src = os.path.join(REPO, "src")
if _src not in sys.path:
    sys.path.insert(0, _src)

logging.disable(logging.CRITICAL)

import hashstore.filehashstore as fhs  # noqa: E402
from hashstore import HashStoreFactory  # noqa: E402
import hashstore.filehashstore_exceptions as fhs_exc  # noqa: E402

assert os.path.realpath(fhs.__file__).startswith(os.path.realpath(REPO) + os.sep), (
    "hashstore imported from %s, not from %s" % (fhs.__file__, REPO))

# module-global substitution: the primitives HashStore creates come from the simulator
SIM_THREADING = simsched.SimThreading()
SIM_MP = simsched.SimMultiprocessing()
ATEXIT = simsched.AtexitRecorder()
fhs.threading = SIM_THREADING
fhs.multiprocessing = SIM_MP
fhs.atexit = ATEXIT
seam.install()

_counter = itertools.count()


def scratch_base():
    for base in ("/dev/shm", os.environ.get("TMPDIR") or "/tmp"):
        if os.path.isdir(base) and os.access(base, os.W_OK):
            return base
    return "/tmp"


def new_sandbox(tag="r"):
    d = os.path.join(scratch_base(), "hsv-%d-%s-%d" % (os.getpid(), tag, next(_counter)))
    with seam.passthrough():
        if os.path.exists(d):
            shutil.rmtree(d)
        os.makedirs(os.path.join(d, "input"))
    return d


def make_content(spec):
    """Deterministic bytes from a JSON-able spec [n, k] (or {"b64": ...})."""
    if isinstance(spec, dict):
        return base64.b64decode(spec["b64"])
    n, k = spec[0], spec[1]
    mode = spec[2] if len(spec) > 2 else None
    if n == 0:
        return b""
    blk = bytes(((k * 31 + i * 7 + (i >> 8) * 13) % 251) for i in range(min(n, 4099)))
    out = (blk * (n // len(blk) + 1))[:n]
    # content shapes that defeat "clever" writers: runs of zeros (sparse files), constant bytes,
    # a zero tail / head / middle, line-structured text
    if mode == "zeros":
        out = bytes([k % 2]) + b"\0" * (n - 1) if k % 3 == 0 and n > 1 else b"\0" * n
    elif mode == "ztail":
        cut = n // 3
        out = out[:cut] + b"\0" * (n - cut)
    elif mode == "zhead":
        cut = n - n // 3
        out = b"\0" * cut + out[cut:]
    elif mode == "zmid":
        a, b = n // 4, n - n // 4
        out = out[:a] + b"\0" * (b - a) + out[b:]
    elif mode == "ff":
        out = b"\xff" * n
    elif mode == "text":
        line = ("line %d of content %d\r\n" % (k, k)).encode()
        out = (line * (n // len(line) + 1))[:n]
    elif isinstance(mode, str) and mode.startswith("sysmeta:"):
        # a DataONE system-metadata document that names a checksum -- of some OTHER bytes (e.g. an earlier
        # revision): what a client stores as metadata is never evidence about the object
        import hashlib
        algo = mode.split(":", 1)[1]
        h = hashlib.new(algo, b"an earlier revision %d" % k).hexdigest()
        out = ('<?xml version="1.0" encoding="UTF-8"?>\n<ns3:systemMetadata xmlns:ns3="http://ns.dataone.org/service/types/v2.0">'
               '<serialVersion>%d</serialVersion><identifier>x</identifier><formatId>text/csv</formatId><size>%d</size>'
               '<checksum algorithm="%s">%s</checksum></ns3:systemMetadata>\n' % (k, n, algo.upper().replace("SHA", "SHA-"), h)).encode()
    return out


class SimStream(io.BufferedIOBase):
    """An in-memory buffered stream as a caller may supply it: ``read(n)`` may return fewer
    than n bytes (legal for BufferedIOBase on e.g. pipes/sockets -- never 0 before EOF)."""

    def __init__(self, data, short_seed=0, offset=0):
        self._b = io.BytesIO(data)
        self._b.seek(offset)
        self._short = short_seed
        self._n = 0

    def read(self, n=-1):
        if n is None or n < 0:
            return self._b.read()
        if self._short:
            pos = self._b.tell()
            remaining = len(self._b.getbuffer()) - pos
            avail = min(n, remaining)
            if avail > 1:
                self._n += 1
                # deterministic pseudo-random shortening relative to what is left
                h = (self._short * 2654435761 + self._n * 40503) & 0xFFFFFFFF
                if (h >> 5) % 4 != 0:
                    n = 1 + (h >> 8) % (avail - 1)
        return self._b.read(n)

    def read1(self, n=-1):
        return self.read(n)

    def readable(self):
        return True

    def seekable(self):
        return True

    def seek(self, pos, whence=0):
        return self._b.seek(pos, whence)

    def tell(self):
        return self._b.tell()

    def close(self):
        self._b.close()
        super().close()

    @property
    def closed(self):
        return self._b.closed


_FMT_SKINS = ["%3A%s%2F%d", "{0}{}{pid!r}", "%(pid)s%", "\\N{{x}}%"]


def skin_pids(pids, knobs):
    sk = knobs.get("pid_skin")
    if not sk or knobs.get("chdir"):
        return list(pids)
    if sk[0] == "long":
        return [p + ":" + ("0123456789abcdef" * (sk[1] // 16 + 1))[: max(0, sk[1] - len(p) - 1)] for p in pids]
    frag = _FMT_SKINS[sk[1] % len(_FMT_SKINS)]
    return [p + frag for p in pids]


class World(object):
    """One sandbox + one store configuration + the alphabets of a program."""

    def __init__(self, prog, sandbox=None, run_kwargs=None):
        self.prog = prog
        self.cfg = prog["cfg"]
        self.knobs = prog.get("knobs", {})
        self.sandbox = sandbox or new_sandbox()
        self.own_sandbox = sandbox is None
        self.store_root = os.path.join(self.sandbox, "store")
        self.input_dir = os.path.join(self.sandbox, "input")
        with seam.passthrough():
            os.makedirs(self.input_dir, exist_ok=True)
        self.pids = skin_pids(prog["pids"], self.knobs)
        self.formats = prog.get("formats", [])
        self.contents = [make_content(s) for s in prog["contents"]]
        self.mcontents = [make_content(s) for s in prog.get("mcontents", prog["contents"])]
        self.run = seam.Run(self.sandbox, seed=prog.get("seed", 0),
                            blksize=self.knobs.get("blksize"),
                            write_through=self.knobs.get("write_through", False),
                            shuffle_listdir=self.knobs.get("shuffle_listdir", True),
                            **(run_kwargs or {}))
        self.run.short_writes = bool(self.knobs.get("short_writes", False))
        import tempfile
        with seam.passthrough():
            os.makedirs(self.run.exttmp, exist_ok=True)
        self._prev_tempdir = tempfile.tempdir
        tempfile.tempdir = self.run.exttmp
        self.mp = bool(self.knobs.get("mp", False))
        self.store = None
        self.store2 = None
        self._oms = {}  # ObjectMetadata objects the caller keeps and passes again
        self._write_inputs()

    # -- files the caller supplies -------------------------------------------------------------
    def _write_inputs(self):
        with seam.passthrough():
            self._write_inputs2()

    def _write_inputs2(self):
        for i, c in enumerate(self.contents):
            for name in ("c%d" % i, "c%d.copy" % i):
                p = os.path.join(self.input_dir, name)
                if not os.path.exists(p):
                    with seam.real_open(p, "wb") as f:
                        f.write(c)
        for i, c in enumerate(self.mcontents):
            p = os.path.join(self.input_dir, "m%d" % i)
            if not os.path.exists(p):
                with seam.real_open(p, "wb") as f:
                    f.write(c)

    def scribble(self, idx, on):
        """Harness action standing for the caller: rewrite its own input files of content ``idx`` in place
        (same inode), or put the original bytes back."""
        data = self.contents[idx]
        junk = (b"\xa5scribbled\x5a" * (len(data) // 11 + 2))[: max(len(data), 1) + 3]
        with seam.passthrough():
            for name in ("c%d" % idx, "c%d.copy" % idx):
                p = os.path.join(self.input_dir, name)
                if os.path.exists(p):
                    with seam.real_open(p, "r+b") as f:
                        f.seek(0)
                        f.write(junk if on else data)
                        f.truncate()

    def props(self, cfg=None):
        cfg = cfg or self.cfg
        # "relstore": the store is configured with a path relative to the caller's working directory
        # (the engine runs inside the sandbox then)
        p = {"store_path": "store" if self.knobs.get("relstore") else self.store_root}
        for k in ("store_depth", "store_width", "store_algorithm", "store_metadata_namespace"):
            if k in cfg:
                p[k] = cfg[k]
        for k, v in cfg.get("extra", {}).items():
            p[k] = v
        return p

    def open_store(self, cfg=None):
        """Construct a FileHashStore on the sandbox (through the seam)."""
        old = os.environ.get("USE_MULTIPROCESSING")
        self.store2 = None
        if self.mp:
            os.environ["USE_MULTIPROCESSING"] = "True"
        else:
            os.environ.pop("USE_MULTIPROCESSING", None)
        try:
            if self.knobs.get("real_mp"):
                # C16 (b): the real multiprocessing.Lock / Condition / Manager().list() (no seam: the
                # manager spawns a server process and creates sockets outside the sandbox)
                import multiprocessing as real_mp
                fhs.multiprocessing = real_mp
                try:
                    with seam.activate(None, 0):
                        self.store = self._construct(cfg)
                finally:
                    fhs.multiprocessing = SIM_MP
            else:
                with seam.activate(self.run, getattr(seam._tl, "task", 0)):
                    self.store = self._construct(cfg)
                # threading mode: the locked-identifier lists become yield points
                for name, val in list(vars(self.store).items()):
                    if type(val) is list and "locked" in name:
                        setattr(self.store, name, simsched.YieldList(val))
        finally:
            if old is None:
                os.environ.pop("USE_MULTIPROCESSING", None)
            else:
                os.environ["USE_MULTIPROCESSING"] = old
        return self.store

    def second(self):
        """A second instance on the same directory (same configuration), created on first use."""
        if self.store2 is None:
            first = self.store
            self.open_store()
            self.store2, self.store = self.store, first
        return self.store2

    def _construct(self, cfg):
        if self.knobs.get("factory", True):
            # the documented way: through the factory (README 'Getting started')
            return HashStoreFactory.get_hashstore("hashstore.filehashstore", "FileHashStore", self.props(cfg))
        return fhs.FileHashStore(self.props(cfg))

    def fork_view(self):
        """What a forked worker process sees: a private copy of ordinary attributes, shared
        synchronisation primitives and manager-list proxies."""
        import copy
        v = copy.copy(self.store)
        # ordinary (non-shared) objects are private copies in a forked child: plain lists, and
        # threading primitives (only multiprocessing primitives and manager proxies are shared)
        private_locks = {}

        def priv_lock(lk):
            if lk.kind != "th":
                return lk
            if id(lk) not in private_locks:
                private_locks[id(lk)] = simsched.SimLock("th")
            return private_locks[id(lk)]
        for name, val in list(vars(self.store).items()):
            if type(val) is list or isinstance(val, simsched.YieldList):
                setattr(v, name, type(val)(val))
            elif isinstance(val, simsched.SimLock):
                setattr(v, name, priv_lock(val))
            elif isinstance(val, simsched.SimCondition) and val.kind == "th":
                setattr(v, name, simsched.SimCondition(priv_lock(val.lock), "th"))
        return v

    def model(self):
        return M.Model(self.cfg["store_algorithm"], self.cfg["store_metadata_namespace"],
                       self.contents, self.pids, self.formats, self.mcontents)

    def cleanup(self):
        import tempfile
        if tempfile.tempdir == self.run.exttmp:
            tempfile.tempdir = self._prev_tempdir
        if self.own_sandbox:
            with seam.passthrough():
                shutil.rmtree(self.sandbox, ignore_errors=True)

    # -- executing one operation -----------------------------------------------------------------
    def data_arg(self, idx, kind, off=0, short=0, prefix="c"):
        """Build the caller's data argument; returns (arg, finish) where finish() checks the
        stream post-conditions of C01 and releases it."""
        path = os.path.join(self.input_dir, "%s%d" % (prefix, idx))
        content = self.contents[idx] if prefix == "c" else self.mcontents[idx]
        if kind == "str":
            return path, None
        if kind == "path":
            return Path(path), None
        if kind == "missing":
            # a path string that names no file: accepted by the type check, rejected when opened
            return path + ".does-not-exist", None
        off = min(off, len(content))
        if kind == "file":
            f = seam.real_open(path, "rb")
            f.seek(off)
        elif kind == "rwfile":
            # a read/write stream the caller has just written (w+b, e.g. tempfile.TemporaryFile):
            # part of the content may still sit in the caller's write buffer, offset = end
            self._rw = getattr(self, "_rw", 0) + 1
            f = seam.real_open(os.path.join(self.input_dir, "rw%s%d_%d" % (prefix, idx, self._rw)), "w+b")
            step = max(1, min(len(content), 700 + 13 * (short or 0)))
            for i in range(0, len(content), step):
                f.write(content[i:i + step])
            off = len(content)
        elif kind == "mem":
            f = SimStream(content, short_seed=short, offset=off)
        elif kind == "bytesio":
            f = io.BytesIO(content)
            f.seek(off)
        elif kind == "bufreader":
            f = io.BufferedReader(io.BytesIO(content))
            f.seek(off)
        else:
            raise ValueError(kind)

        def finish():
            r = {"closed": bool(f.closed)}
            if not f.closed:
                r["tell"] = f.tell()
                r["off"] = off
                f.close()
            return r
        return f, finish

    def exec_op(self, op, store=None):
        """Run one operation on the real store; returns (outcome, extra)."""
        st = store or (self.second() if op.get("inst") else self.store)
        name = op["op"]
        extra = {}
        finish = None
        self.run.call_events = 0
        try:
            if name == "store":
                pid = None if op.get("pid") is None else self.pids[op["pid"]]
                data = self.contents[op["c"]]
                arg, finish = self.data_arg(op["c"], op.get("kind", "str"), op.get("off", 0),
                                            op.get("short", 0))
                mdl = self._m()
                checksum = mdl.checksum_arg(data, op.get("ck"), op.get("ckalgo"))
                size = mdl.size_arg(data, op.get("size"))
                if pid is None and not op.get("fullargs"):
                    r = st.store_object(data=arg)
                else:
                    r = st.store_object(pid, arg, op.get("add"), checksum, op.get("ckalgo"), size)
                out = ("ok", {"pid": r.pid, "cid": r.cid, "size": r.obj_size,
                              "digests": dict(r.hex_digests)})
                self._oms[("ret", op["c"])] = r
            elif name == "tag":
                st.tag_object(self.pids[op["pid"]], self._m().resolve_cid(op["cid"]))
                out = ("ok", "none")
            elif name == "delete":
                st.delete_object(self.pids[op["pid"]])
                out = ("ok", "none")
            elif name == "div":
                mdl = self._m()
                data = self.contents[op["c"]]
                dm = dict((a, M.digest(a, data)) for a in M.DEFAULT_ALGOS)
                canon = M.normalise_algo(op["ckalgo"])
                if op.get("meta_has_algo") and canon:
                    dm[canon] = M.digest(canon, data)
                om = fhs.ObjectMetadata("HashStoreNoPid", mdl.cid_of(data), len(data), dm)
                how = op.get("reuse_om")
                if how == "inst":
                    om = self._oms.setdefault(("inst", op["c"], bool(op.get("meta_has_algo"))), om)
                elif how == "ret" and ("ret", op["c"]) in self._oms:
                    om = self._oms[("ret", op["c"])]
                st.delete_if_invalid_object(om, mdl.checksum_arg(data, op["ck"], op["ckalgo"]),
                                            op["ckalgo"], mdl.size_arg(data, op.get("size")))
                out = ("ok", "none")
            elif name == "retrieve":
                s = st.retrieve_object(self.pids[op["pid"]])
                try:
                    out = ("ok", s.read())
                finally:
                    s.close()
            elif name == "hexdigest":
                out = ("ok", st.get_hex_digest(self.pids[op["pid"]], op["algo"]))
            elif name == "smeta":
                arg, finish = self.data_arg(op["m"], op.get("kind", "str"), op.get("off", 0),
                                            op.get("short", 0), prefix="m")
                fmt = None if op.get("fmt") is None else self.formats[op["fmt"]]
                if fmt is None and not op.get("explicit_none"):
                    r = st.store_metadata(self.pids[op["pid"]], arg)
                else:
                    r = st.store_metadata(self.pids[op["pid"]], arg, fmt)
                extra["path"] = r
                out = ("ok", True)
            elif name == "rmeta":
                fmt = None if op.get("fmt") is None else self.formats[op["fmt"]]
                s = st.retrieve_metadata(self.pids[op["pid"]], fmt) if fmt is not None else \
                    st.retrieve_metadata(self.pids[op["pid"]])
                try:
                    out = ("ok", s.read())
                finally:
                    s.close()
            elif name == "dmeta":
                fmt = None if op.get("fmt") is None else self.formats[op["fmt"]]
                if fmt is None:
                    st.delete_metadata(self.pids[op["pid"]])
                else:
                    st.delete_metadata(self.pids[op["pid"]], fmt)
                out = ("ok", "none")
            elif name == "raw":
                out = self._exec_raw(st, op)
            else:
                raise ValueError("unknown op %r" % (name,))
        except (seam.SimCrash, seam.SimAbort):
            raise
        except seam.SimLivelock:
            # the call spins: reported as an outcome no model ever expects; the engines attribute it to C08
            out = ("exc", "DoesNotTerminate")
            extra["msg"] = "more than %d file-system events without returning" % seam.CALL_EVENT_CAP
        except Exception as e:  # outcome of the call, not of the harness
            out = ("exc", type(e).__name__)
            extra["msg"] = str(e)[:300]
            if not isinstance(e, (OSError, ValueError, TypeError, KeyError)) and \
                    not hasattr(fhs_exc, type(e).__name__) and type(e).__name__ != "Exception":
                import traceback
                extra["tb"] = traceback.format_exc()[-1500:]
        finally:
            if finish is not None:
                try:
                    extra["stream"] = finish()
                except Exception as e:  # pragma: no cover
                    extra["stream"] = {"error": repr(e)}
        return out, extra

    def _m(self):
        m = getattr(self, "_model_helper", None)
        if m is None:
            m = self._model_helper = self.model()
        return m

    def _exec_raw(self, st, op):
        """A call given literally (invalid-argument grammar of C17)."""
        args = []
        opened = []
        for a in op["args"]:
            if isinstance(a, dict) and "pid" in a:
                args.append(self.pids[a["pid"]])
            elif isinstance(a, dict) and "data" in a:
                arg, fin = self.data_arg(a["data"], a.get("kind", "str"), prefix=a.get("prefix", "c"))
                if fin:
                    opened.append(fin)
                args.append(arg)
            elif isinstance(a, dict) and "lit" in a:
                args.append(a["lit"])
            elif isinstance(a, dict) and "bytes" in a:
                args.append(a["bytes"].encode())
            elif isinstance(a, dict) and "cid" in a:
                args.append(self._m().resolve_cid(a["cid"]))
            elif isinstance(a, dict) and "fmt" in a:
                args.append(self.formats[a["fmt"]])
            elif isinstance(a, dict) and "om" in a:
                data = self.contents[a["om"]]
                dm = dict((x, M.digest(x, data)) for x in M.DEFAULT_ALGOS)
                args.append(fhs.ObjectMetadata("HashStoreNoPid", self._m().cid_of(data), len(data), dm))
            elif isinstance(a, dict) and "checksum" in a:
                args.append(M.digest(a.get("algo", "sha256"), self.contents[a["checksum"]]))
            else:
                args.append(a)
        try:
            r = getattr(st, op["method"])(*args)
            if hasattr(r, "read"):
                try:
                    r = r.read()
                finally:
                    pass
            if hasattr(r, "cid"):
                r = {"pid": r.pid, "cid": r.cid, "size": r.obj_size, "digests": dict(r.hex_digests)}
            return ("ok", r if isinstance(r, (bytes, dict, str)) or r is None else str(r))
        finally:
            for fin in opened:
                fin()

    # -- abstraction --------------------------------------------------------------------------------
    def alpha(self, root=None):
        return alpha(root or self.store_root)


def _walk(top):
    """Deterministic recursive listing: yields (relative components tuple, abs path) of files,
    and collects directories."""
    stack = [((), top)]
    files = []
    dirs = []
    while stack:
        comps, d = stack.pop()
        try:
            names = sorted(os.listdir(d))
        except FileNotFoundError:
            continue
        for n in names:
            p = os.path.join(d, n)
            if os.path.isdir(p) and not os.path.islink(p):
                dirs.append(comps + (n,))
                stack.append((comps + (n,), p))
            else:
                files.append((comps + (n,), p))
    return files, dirs


def _read(p):
    with seam.real_open(p, "rb") as f:
        return f.read()


def alpha(root):
    """Abstraction of a store directory.  Layout-agnostic: an identifier is the concatenation
    of the path components below the entity directory; pid references are kept as a multiset of
    (ref id, content)."""
    with seam.passthrough():
        a = {"objs": {}, "pidrefs": {}, "cidrefs": {}, "meta": {}, "tmp": [], "markers": [],
             "foreign": [], "yaml": None, "junk": []}
        files, dirs = _walk(root)
        for comps, p in files:
            top = comps[0]
            if top == "hashstore.yaml" and len(comps) == 1:
                a["yaml"] = _read(p)
                continue
            if top == "objects" and len(comps) > 1:
                if comps[1] == "tmp":
                    a["tmp"].append("/".join(comps))
                elif comps[-1].endswith("_delete"):
                    a["markers"].append("/".join(comps))
                else:
                    a["objs"]["".join(comps[1:])] = p
                continue
            if top == "metadata" and len(comps) > 1:
                if comps[1] == "tmp":
                    a["tmp"].append("/".join(comps))
                elif comps[-1].endswith("_delete"):
                    a["markers"].append("/".join(comps))
                else:
                    a["meta"][("".join(comps[1:-1]), comps[-1])] = _read(p)
                continue
            if top == "refs" and len(comps) > 2:
                if comps[1] == "tmp":
                    a["tmp"].append("/".join(comps))
                    continue
                if comps[-1].endswith("_delete"):
                    a["markers"].append("/".join(comps))
                    continue
                if comps[1] == "pids":
                    a["pidrefs"]["".join(comps[2:])] = _read(p)
                    continue
                if comps[1] == "cids":
                    raw = _read(p)
                    try:
                        txt = raw.decode("utf8")
                    except UnicodeDecodeError:
                        txt = raw.decode("utf8", "replace")
                        a["junk"].append("/".join(comps))
                    lines = txt.split("\n")
                    if lines and lines[-1] == "":
                        lines.pop()
                    # (a last line without its terminator is a layout matter -- C15 -- not a
                    # bookkeeping error: the pid is listed)
                    a["cidrefs"]["".join(comps[2:])] = lines
                    continue
            a["foreign"].append("/".join(comps))
        a["dirs"] = sorted("/".join(d) for d in dirs)
        return a


def object_hash_ok(a, algo):
    """C09 helper: every file at a permanent object address hashes to its name."""
    bad = []
    for cid, p in a["objs"].items():
        try:
            h = hashlib.new(algo, _read(p)).hexdigest()
        except FileNotFoundError:
            continue
        if h != cid:
            bad.append(cid)
    return bad


def snapshot(root):
    """Full directory snapshot (paths, content hashes, directories) for 'byte-for-byte
    unchanged' comparisons (C14, C17)."""
    with seam.passthrough():
        files, dirs = _walk(root)
        out = {}
        for comps, p in files:
            out["/".join(comps)] = hashlib.sha256(_read(p)).hexdigest()
        for d in dirs:
            out["/".join(d) + "/"] = "dir"
        return out


def compare_alpha(a, mdl, check_residue=True):
    """Compare alpha(directory) with the model state.  Returns a list of (class, detail)
    differences; empty = equal.  Classes: obj-missing-referenced, obj-missing, obj-extra,
    pidref-*, cidref-*, meta-*, residue-tmp, residue-marker, foreign."""
    diffs = []
    objs = set(a["objs"])
    for cid in mdl.objs - objs:
        if mdl.cid2pids.get(cid):
            diffs.append(("obj-missing-referenced", cid))
        else:
            diffs.append(("obj-missing", cid))
    for cid in objs - mdl.objs:
        diffs.append(("obj-extra", cid))
    # pid references: multiset of contents must equal multiset of bound cids
    got = sorted(a["pidrefs"].values())
    want = sorted(c.encode() for c in mdl.pid2cid.values())
    if got != want:
        diffs.append(("pidref-set", {"got": [g.decode("utf8", "replace") for g in got],
                                     "want": [w.decode() for w in want]}))
    # cid reference lists
    for cid, lst in mdl.cid2pids.items():
        if cid not in a["cidrefs"]:
            diffs.append(("cidref-missing", cid))
        elif sorted(a["cidrefs"][cid]) != sorted(lst):
            diffs.append(("cidref-content", {"cid": cid, "got": a["cidrefs"][cid], "want": lst}))
    for cid, lst in a["cidrefs"].items():
        if cid not in mdl.cid2pids:
            diffs.append(("cidref-extra" if lst else "cidref-empty", {"cid": cid, "lines": lst}))
    # metadata: multiset of document contents
    gotm = sorted(hashlib.sha1(v).hexdigest() for v in a["meta"].values())
    wantm = sorted(hashlib.sha1(v).hexdigest() for v in mdl.meta.values())
    if gotm != wantm:
        diffs.append(("meta-set", {"got": len(gotm), "want": len(wantm)}))
    if check_residue:
        for t in a["tmp"]:
            diffs.append(("residue-tmp", t))
        for t in a["markers"]:
            diffs.append(("residue-marker", t))
    for t in a["foreign"]:
        diffs.append(("foreign", t))
    for t in a["junk"]:
        diffs.append(("cidref-junk", t))
    return diffs
