#!/venv/bin/python
"""Regenerate /verif/MANIFEST.json from the registry (claimed properties) and the tables below."""
import json
import os
import sys

HERE = os.path.dirname(os.path.dirname(os.path.abspath(__file__)))
sys.path.insert(0, HERE)
os.environ.setdefault("PYTHONHASHSEED", "0")
from sim import registry  # noqa: E402

LEVEL_TEXT = {
    "C01": ("exploration", "4/C01", "Seeded search over API histories with the real Stream/FileHashStore code under the seam: "
            "every kind of data argument (str, Path, real file at an offset, in-memory BufferedIOBase with short reads, "
            "BytesIO, BufferedReader), content sizes around every multiple of the read-chunk size (st_blksize is a simulator "
            "knob, 1..8192), five store algorithms, restarts; cid/size against hashlib, bytes re-read after every later step. "
            "Evidence over a sample of histories, not proof."),
    "C02": ("exploration", "4/C02", "Histories on one instance mixing store_object with every additional/checksum algorithm "
            "spelling and get_hex_digest; key set and values against hashlib after every call, restarts in between; plus the "
            "multi-task scenarios with algorithm arguments (a history that is linearizable except for a digest map is a C02 violation)."),
    "C03": ("exploration", "4/C03", "Histories of store/tag/delete/delete_if_invalid over small alphabets; a re-bind of a bound "
            "pid must raise a documented already-exists class and leave alpha(directory) restricted to bindings unchanged; every "
            "history of <= 3 calls over a 13-call menu is enumerated; multi-task scenarios attribute 'a bound pid bound again' to C03."),
    "C04": ("exploration", "4/C04", "Histories biased to shared content; after every step every bound pid is retrieved and "
            "compared byte for byte; object removal exactly when the model's reference list becomes empty; short histories "
            "enumerated; multi-task scenarios attribute 'a referenced object is missing' to C04."),
    "C05": ("exploration", "4/C05", "alpha(directory) == reference model after every call of every history: both indexes, "
            "object set, no temp file, no *_delete marker, no empty list; every history of <= 3 calls over a 13-call menu is "
            "enumerated (complete for that menu), longer ones are random; multi-task scenarios attribute unexplained reference files to C05."),
    "C06": ("exploration", "4/C06", "Validated store_object and delete_if_invalid_object over 12 algorithms x spellings x "
            "checksum case x size, in states where the content is absent / unreferenced / referenced; verdict against hashlib."),
    "C11": ("exploration", "4/C11", "Metadata histories over colliding (pid, format) pairs; model map equality and API look-ups "
            "after every call; short histories enumerated; plus concurrent calls on two DIFFERENT pids whose "
            "(pid, format) concatenations coincide."),
    "C16": ("exploration", "4/C16", "Every history is executed in multiprocessing mode and, on any disagreement, re-executed "
            "in threading mode; the C07/C12 scenarios run through the multiprocessing code paths with tasks standing for "
            "forked processes (fork-view of the store, manager-list operations as yield points)."),
    "C07": ("exploration", "4/C07", "2-4 tasks x 1-2 object calls from several start states under the seeded baton-passing "
            "scheduler (uniform random, PCT, bounded pre-emption, probe-biased, race-directed postponing; yield points = every "
            "file-system call, lock/condition operation, locked-identifier list operation and flock, and in 10% of the runs "
            "every executed line of filehashstore.py; a share of the runs in multiprocessing mode); the recorded invoke/return history and the final alpha(directory) must be "
            "explained by a sequential order of the reference model. Search, not enumeration: evidence over ~10^4 (quick) "
            "to ~10^5-10^6 (thorough) schedules."),
    "C08": ("exploration", "4/C08", "Every CONC run must end with all tasks finished (the scheduler owns every blocking "
            "primitive, so 'nobody runnable' is a detected deadlock), empty locked-identifier lists, free locks, and "
            "completing follow-up calls on every identifier involved; the FAULT runs of C13 apply the same oracles after "
            "an injected I/O error at every fault site."),
    "C09": ("fault_enumeration", "4/C09", "Invariant monitor at every seam event of every (start state, call, knob set) of a "
            "fixed menu (complete for that menu), of random single calls, and of the multi-task runs: object files hash "
            "to their name, metadata documents and pid references are complete supplied values, at every instant; short writes on "
            "raw descriptors and a system tmp dir on another file system (EXDEV) are part of the fault space; SEQ-I histories "
            "continue after interruptions and read every document back."),
    "C10": ("fault_enumeration", "4/C10", "Process death before every mutating seam event of every (start state, call) of a "
            "fixed menu (complete for that menu) plus random states/calls/second crashes; recovery oracle on a new instance "
            "opened on the directory as it was at that instant; SEQ-I: histories that go on after process deaths (several "
            "interruptions per history, states left behind by earlier ones); process death of all threads mid-call (crash-conc). "
            "Crash stub cross-checked against real fork + os._exit."),
    "C12": ("exploration", "4/C12", "As C07 for store/retrieve/delete_metadata and delete_object on one pid and 1-2 formats, "
            "with reader tasks; one genuine defect (delete-all is not atomic across documents) is listed as a known finding "
            "and identified by a relaxed linearization, every other non-linearizable history is reported."),
    "C13": ("fault_enumeration", "4/C13", "One injected OSError per run at every fault site of every (start state, call) of a "
            "fixed menu x {one-off, persistent, persistent-but-unlinkable} (complete for that menu; EIO in quick, EIO/ENOSPC/EACCES "
            "in thorough) plus random states/calls/errnos, both synchronisation modes; SEQ-I histories that continue after "
            "failed calls; multi-task runs with one injected error under the bystander oracle (calls and pids the error did "
            "not touch must be explained by a sequential order), fault sites placed on paths several tasks touch."),
    "C14": ("exploration", "4/C14", "Histories with reopen(cfg') operations over the configuration space, refused opens "
            "between two full directory snapshots with a seam mutation trace, accepted opens continue model conformance."),
    "C17": ("exploration", "4/C17", "Invalid-argument grammar for every parameter of every public method inserted into "
            "histories; each rejected / read-only call runs between two full directory snapshots; SEQ-I: read-only look-ups in "
            "states left behind by interrupted calls must not write when they succeed."),
    "C18": ("exploration", "4/C18", "Adversarial identifier alphabets inside histories with two seam monitors that only a "
            "simulator-owned file system provides: containment and per-identifier access isolation."),
    "C19": ("exploration", "4/C19", "Two-world rule inside histories: the one-call and the step-wise store procedure run on "
            "two copies of the current store directory; reports and abstract states compared."),
}

TRUST = ("Trusted: CPython, the kernel file system on tmpfs, the ~250-line reference model and the abstraction function; "
         "the seam (sim/seam.py) intercepts os/io/fcntl at module level, so file-system access through other routes "
         "(none exists in hashstore today) would be invisible. A clean batch is evidence over the seeded sample, not proof.")

TECH = {
    "SEQ": "deterministic simulation: seeded API histories on the real code under an os/io seam, lock-step reference model + abstraction",
}

NOT_APPLICABLE = {
    "C15": "pure function of (configuration, identifiers, contents) -> directory tree: no schedule, clock, fault, crash point or "
           "history dependence; deciding it is differential input generation against an independent layout implementation, "
           "not simulation (DESIGN.md section 4/C15)",
    "C20": "hashstoreclient.main() is argument marshalling: one fresh process per invocation, no concurrency, timing, fault or "
           "crash behaviour of its own; its file-system effects are the API's (DESIGN.md section 4/C20)",
}

PENDING_REASON = "not claimed yet: the simulator configuration deciding it is still under construction in this round (see DESIGN.md)"


def main():
    props = [json.loads(l) for l in open(os.path.join(HERE, "properties.jsonl"))]
    checks = []
    na = []
    registry._ensure()
    for p in props:
        pid = p["id"]
        if pid in registry._TABLE:
            lvl, ref, text = LEVEL_TEXT.get(pid, (registry.level(pid), "4/" + pid, registry.rule(pid)))
            engs = sorted(set(x.engine for x in registry.parts(pid)))
            checks.append({
                "property_id": pid,
                "quick_cmd": "./check.py %s --tier quick" % pid,
                "thorough_cmd": "./check.py %s --tier thorough" % pid,
                "evidence_file": "/verif/evidence/%s.json" % pid,
                "replay_cmd_template": "./check.py %s --replay {path}" % pid,
                "engine": "+".join(engs),
                "level_claimed": {"category": registry.level(pid), "text": text, "design_ref": "DESIGN.md section " + ref},
                "level_note": TRUST,
                "technique": TECHNIQUE.get(pid, "deterministic simulation with fault injection: " + ", ".join(engs)),
            })
        elif pid in NOT_APPLICABLE:
            na.append({"property_id": pid, "reason": NOT_APPLICABLE[pid]})
        else:
            na.append({"property_id": pid, "reason": PENDING_REASON})
    engines = {}
    for pid in registry._TABLE:
        for part in registry.parts(pid):
            engines.setdefault(part.engine, set()).add(pid)
    man = {
        "version": 1,
        "setup_cmd": "/venv/bin/python -c \"import sys; sys.path.insert(0,'/verif'); import sim.world; print('ok')\"",
        "hooks": {
            "guard": "HASHSTORE_VERIF",
            "enable": "none needed: all seams are installed from /verif at run time (module-global substitution of "
                      "hashstore.filehashstore.threading/multiprocessing/atexit, wrappers on os/io/builtins/fcntl); "
                      "the guard name is reserved and unused",
            "baseline_off_cmd": "cd /repo && /venv/bin/python -m pytest -ra -q -p no:cacheprovider --timeout=900 --continue-on-collection-errors",
            "source_commits": [],
            "add_only": True,
        },
        "engines": [{"name": k, "path": ENGINE_PATH.get(k, "sim/engines.py"), "serves_properties": sorted(v),
                     "kind_free_text": ENGINE_TEXT.get(k, k)} for k, v in sorted(engines.items())],
        "checks": checks,
        "not_applicable": na,
        "notes": "One simulator (sim/), several configurations. Fixes of genuine defects are 'fix:' commits in /repo, "
                 "recorded in known_findings.json with regression replays under replays/kept/.",
    }
    with open(os.path.join(HERE, "MANIFEST.json"), "w") as f:
        json.dump(man, f, indent=1)
    print("claimed:", [c["property_id"] for c in checks])
    print("not_applicable:", [c["property_id"] for c in na])


ENGINE_PATH = {"SEQ": "sim/engines.py", "SEQ-I": "sim/seqi.py", "CONC": "sim/conc.py", "ATOM": "sim/single.py",
               "CRASH": "sim/single.py", "FAULT": "sim/single.py"}
ENGINE_TEXT = {
    "SEQ": "sequential seeded histories on the real FileHashStore vs reference model, restarts, both sync modes",
    "SEQ-I": "sequential seeded histories in which calls are interrupted (one-off/persistent I/O error, process death + "
             "reopen); the model is re-synchronised from API observations and every later call is held to it",
    "CONC": "2-4 tasks under the seeded baton-passing scheduler (random / PCT / bounded / probe-biased), linearizability vs the model",
    "ATOM": "invariant monitor evaluated at every seam event (between any two kernel-visible steps)",
    "CRASH": "process death before every seam event of a call (directory snapshot), recovery oracle on a new instance",
    "FAULT": "one injected OSError per run at every fault site x errno x {one-off, persistent}",
}
TECHNIQUE = {
    "C01": "deterministic simulation: seeded histories + stream/st_blksize seam, model-checked round trip",
    "C02": "deterministic simulation: seeded histories on one instance vs hashlib model",
    "C03": "deterministic simulation: seeded histories vs reference model (rejection is effect-free)",
    "C04": "deterministic simulation: seeded sharing histories vs reference model",
    "C05": "deterministic simulation: abstraction(directory) == reference model after every call",
    "C06": "deterministic simulation: seeded validation histories vs hashlib verdict model",
    "C11": "deterministic simulation: seeded metadata histories vs reference model",
    "C16": "deterministic simulation: differential threading/multiprocessing histories + simulated forked processes",
    "C07": "deterministic simulation: seeded thread schedules (random/PCT/bounded) + linearizability check against a reference model",
    "C08": "deterministic simulation: scheduler-owned blocking primitives (deadlock = no runnable task) + fault injection",
    "C09": "deterministic simulation: invariant monitor at every intercepted file-system step (crash/reader view)",
    "C10": "deterministic simulation: crash injection at every mutating file-system step + recovery oracle",
    "C12": "deterministic simulation: seeded thread schedules + linearizability check of metadata histories",
    "C13": "deterministic simulation: single-fault injection (errno x site x persistence) sweep + seeded random",
    "C14": "deterministic simulation: seeded (create, history, reopen) configurations with snapshot + seam mutation trace",
    "C17": "deterministic simulation: invalid-argument grammar inside seeded histories, directory snapshots + seam trace",
    "C18": "deterministic simulation: adversarial identifiers with seam containment / access-isolation monitors",
    "C19": "deterministic simulation: two-world differential execution inside seeded histories",
}

if __name__ == "__main__":
    main()
