#!/venv/bin/python
"""Write the prompt for one seeded-breakage sub-agent: the text of ONE property and its scratch worktree,
nothing from /verif.   tools/mkprompt.py <property> <tag> ["hint ..."]  -> /tmp/prompt-<tag>.txt, /tmp/wt-<tag>"""
import json
import os
import subprocess
import sys

HERE = os.path.dirname(os.path.dirname(os.path.abspath(__file__)))

T = '''You are helping to evaluate how SENSITIVE a verification tool is. Work ONLY inside the git worktree {wt} (a checkout of the Python project DataONEorg/hashstore: a content-addressable file object store; main code in src/hashstore/filehashstore.py, also src/hashstore/hashstore.py). Do NOT read or touch /verif or /repo, and do not look at any other /tmp/wt-* directory. Do NOT use `git stash` (the stash is shared between worktrees); to test "without the change" use `git diff -- src > /tmp/{tag}.patch && git apply -R /tmp/{tag}.patch ... git apply /tmp/{tag}.patch`.

This semantic property of hashstore is supposed to hold:

    {pid} -- {title}

    {statement}

    It is meant universally: {quant}

Your task: make ONE realistic change to the hashstore source (the kind of slip or well-meant "improvement" a maintainer could plausibly commit: 1-30 changed lines, one or two sites) that BREAKS this property, while
  * the package still imports and the existing test suite still passes completely:
        cd {wt} && PYTHONPATH={wt}/src /venv/bin/python -m pytest -q -p no:cacheprovider --timeout=900 -n 8      (250 passed expected)
  * the breakage is NOT trivially visible: it should need something specific to manifest -- a particular kind of input, a particular earlier history of calls, a particular configuration, a particular interleaving of two callers, a particular crash or I/O error point -- so that a verification tool which only samples the obvious cases would miss it. Prefer a change whose trigger differs from the ones listed under "already used" below.
  * it must be a genuine violation of the property AS STATED (not of some stronger requirement you invent), observable through the public API (store_object, tag_object, delete_object, delete_if_invalid_object, store_metadata, retrieve_metadata, delete_metadata, retrieve_object, get_hex_digest, the constructor / HashStoreFactory) and/or the store directory.
  * do not touch the tests, do not add new public API, do not add environment switches, and do not simply delete a feature.

Deliver inside {wt}:
  1. the change applied to src/ (uncommitted);
  2. {wt}/demo_{pid}.py: a stand-alone script (PYTHONPATH={wt}/src /venv/bin/python demo_{pid}.py) that exits 1 and prints what went wrong WITH your change and exits 0 WITHOUT it; it works in a fresh temporary directory which it removes; for an interleaving / crash / I/O error it may monkeypatch or use threads with explicit synchronisation to force the point deterministically;
  3. {wt}/NOTE_{pid}.md: what you changed, why it breaks the property, exactly what is needed for it to manifest, and why the test suite does not see it.
Run the test suite and the demo both ways before you finish and report the results (test summary line, demo exit codes) in your final message.
{hint}'''


def main():
    pid, tag = sys.argv[1], sys.argv[2]
    hint = sys.argv[3] if len(sys.argv) > 3 else ""
    props = {}
    for line in open(os.path.join(HERE, "properties.jsonl")):
        d = json.loads(line)
        props[d["id"]] = d
    p = props[pid]
    wt = "/tmp/wt-%s" % tag
    if not os.path.isdir(wt):
        subprocess.check_call(["git", "-C", "/repo", "worktree", "add", "-q", wt, "HEAD"])
    if hint:
        hint = "\nAlready used (choose something different in kind):\n" + "\n".join("  - " + h for h in hint.split("|")) + "\n"
    open("/tmp/prompt-%s.txt" % tag, "w").write(T.format(wt=wt, tag=tag, pid=pid, title=p["title"], statement=p["statement"],
                                                          quant=p["quantifier"]["text"], hint=hint))
    print("/tmp/prompt-%s.txt" % tag)


main()
