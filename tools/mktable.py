#!/venv/bin/python
"""Regenerate the "parts registered per property" table of DESIGN.md (section 11) from sim/props.py."""
import os
import re
import sys

HERE = os.path.dirname(os.path.dirname(os.path.abspath(__file__)))
sys.path.insert(0, HERE)
from sim import props, registry  # noqa: E402,F401


def main():
    rows = ["| property | level | parts (engine) | budget quick / thorough |", "|---|---|---|---|"]
    for pid in sorted(registry._TABLE):
        meta = registry._META[pid]
        parts = []
        for p in registry._TABLE[pid]:
            name = getattr(p, "name", None) or "seq"
            eng = getattr(p, "engine", "SEQ")
            only = getattr(p, "only_tiers", None)
            extra = []
            if getattr(p, "must_complete", False):
                extra.append("complete")
            if only and tuple(only) == ("thorough",):
                extra.append("thorough only")
            parts.append("%s (%s)" % (name, ", ".join([eng] + extra)))
        rows.append("| %s | %s | %s | %s / %s s |" % (pid, meta["level"], ", ".join(parts), meta["quick"], meta["thorough"]))
    table = "\n".join(rows)
    path = os.path.join(HERE, "DESIGN.md")
    s = open(path).read()
    pat = re.compile(r"\| property \| level \| parts \(engine\) \| budget quick / thorough \|\n(\|.*\n)+")
    assert pat.search(s)
    s = pat.sub(lambda m: table + "\n", s, count=1)
    open(path, "w").write(s)
    print(table)


main()
