#!/venv/bin/python
"""False-alarm test: run every quick check against a behaviour-preserving refactoring of hashstore.

  tools/refeval.py import <Rxx> <worktree>     keep patch + note under /verif/refactorings/<Rxx>/, run the tests
  tools/refeval.py run <Rxx> [--budget 15] [--props C01,C02]
"""
import json, os, shutil, subprocess, sys, time
HERE = os.path.dirname(os.path.dirname(os.path.abspath(__file__)))
BASE = os.path.join(HERE, "refactorings")


def sh(cmd, cwd=None, env=None, timeout=3600):
    r = subprocess.run(cmd, shell=True, cwd=cwd, env=env, stdout=subprocess.PIPE, stderr=subprocess.STDOUT, text=True, timeout=timeout)
    return r.returncode, r.stdout


def cmd_import(rid, wt):
    d = os.path.join(BASE, rid)
    os.makedirs(d, exist_ok=True)
    rc, diff = sh("git diff -- src", cwd=wt)
    open(os.path.join(d, "patch.diff"), "w").write(diff)
    if os.path.exists(os.path.join(wt, "NOTE.md")):
        shutil.copy(os.path.join(wt, "NOTE.md"), d)
    env = dict(os.environ, PYTHONPATH=os.path.join(wt, "src"))
    rc, out = sh("/venv/bin/python -m pytest -q -p no:cacheprovider --timeout=900 -n 8", cwd=wt, env=env)
    meta = {"id": rid, "tests": out.strip().splitlines()[-1] if out.strip() else str(rc),
            "lines_changed": diff.count("\n+") + diff.count("\n-"),
            "base_commit": sh("git rev-parse --short HEAD", cwd=wt)[1].strip()}
    json.dump(meta, open(os.path.join(d, "meta.json"), "w"), indent=1)
    print(json.dumps(meta))


def cmd_run(rid, budget, props):
    d = os.path.join(BASE, rid)
    meta = json.load(open(os.path.join(d, "meta.json")))
    scratch = "/dev/shm/hsv-ref-%s-%d" % (rid, os.getpid())
    shutil.rmtree(scratch, ignore_errors=True)
    os.makedirs(scratch)
    shutil.copytree("/repo/src", os.path.join(scratch, "src"))
    rc, out = sh("patch -p1 -s < %s" % os.path.join(d, "patch.diff"), cwd=scratch)
    if rc != 0:
        print("patch does not apply:\n" + out)
        return 2
    env = dict(os.environ, VERIF_REPO=scratch)
    man = json.load(open(os.path.join(HERE, "MANIFEST.json")))
    res = meta.setdefault("checks", {})
    alarms = 0
    try:
        for c in man["checks"]:
            p = c["property_id"]
            if props and p not in props:
                continue
            t0 = time.time()
            rc, out = sh("%s/check.py %s --tier quick --no-evidence --budget %s" % (HERE, p, budget), cwd=HERE, env=env)
            lines = [l for l in out.splitlines() if l.startswith(("VIOLATION", "HARNESS", "violation:"))]
            res[p] = {"rc": rc, "lines": [l[:600] for l in lines[:3]]}
            flag = "" if rc == 0 else "  <-- ALARM"
            alarms += rc != 0
            print("%s %s rc=%d %.0fs%s" % (rid, p, rc, time.time() - t0, flag), flush=True)
            for l in lines[:2]:
                print("    " + l[:900])
            for l in lines:
                if l.startswith("VIOLATION") and "replay=" in l:
                    rp = l.split("replay=")[1].strip()
                    keep = os.path.join(d, os.path.basename(rp))
                    if os.path.exists(rp):
                        shutil.move(rp, keep)
    finally:
        shutil.rmtree(scratch, ignore_errors=True)
    meta["alarms"] = alarms
    json.dump(meta, open(os.path.join(d, "meta.json"), "w"), indent=1)
    print("%s: %d alarms" % (rid, alarms))
    return 0


if __name__ == "__main__":
    if sys.argv[1] == "import":
        cmd_import(sys.argv[2], sys.argv[3])
    else:
        budget = "15"
        props = None
        a = sys.argv[3:]
        while a:
            if a[0] == "--budget":
                budget = a[1]
            if a[0] == "--props":
                props = a[1].split(",")
            a = a[2:]
        sys.exit(cmd_run(sys.argv[2], budget, props))
