#!/venv/bin/python
"""Confirm a seeded breaking change produced by a sub-agent and run the checks against it.

  tools/seedeval.py import <Sxx> <property> <worktree>     copy patch/demo/note out of the worktree into
                                                          /verif/seeded/<Sxx>/ and confirm tests + demo there
  tools/seedeval.py run <Sxx> [--tier quick] [--props C07,C08]   apply to /repo, run the checks, undo
"""
import json
import os
import shutil
import subprocess
import sys
import time

HERE = os.path.dirname(os.path.dirname(os.path.abspath(__file__)))
SEEDED = os.path.join(HERE, "seeded")


def sh(cmd, cwd=None, env=None, timeout=1800):
    r = subprocess.run(cmd, shell=True, cwd=cwd, env=env, stdout=subprocess.PIPE, stderr=subprocess.STDOUT,
                       text=True, timeout=timeout)
    return r.returncode, r.stdout


def cmd_import(sid, prop, wt):
    d = os.path.join(SEEDED, sid)
    os.makedirs(d, exist_ok=True)
    rc, diff = sh("git diff -- src", cwd=wt)
    open(os.path.join(d, "patch.diff"), "w").write(diff)
    demo = [f for f in os.listdir(wt) if f.startswith("demo_") and f.endswith(".py")]
    note = [f for f in os.listdir(wt) if f.startswith("NOTE_")]
    for f in demo + note:
        shutil.copy(os.path.join(wt, f), d)
    env = dict(os.environ, PYTHONPATH=os.path.join(wt, "src"))
    ran = {}
    rc, out = sh("/venv/bin/python -m pytest -q -p no:cacheprovider --timeout=900 -n 8", cwd=wt, env=env)
    ran["tests_with_change"] = out.strip().splitlines()[-1] if out.strip() else str(rc)
    tests_ok = rc == 0
    rc1, out1 = sh("/venv/bin/python %s" % demo[0], cwd=wt, env=env)
    ran["demo_with_change_rc"] = rc1
    ran["demo_with_change_tail"] = out1.strip().splitlines()[-3:]
    pf = os.path.join(d, "patch.diff")
    sh("git apply -R %s" % pf, cwd=wt)
    try:
        rc0, out0 = sh("/venv/bin/python %s" % demo[0], cwd=wt, env=env)
    finally:
        sh("git apply %s" % pf, cwd=wt)
    ran["demo_without_change_rc"] = rc0
    meta = {"id": sid, "property": prop, "demo": demo[0], "confirmed": bool(tests_ok and rc1 != 0 and rc0 == 0),
            "what_i_ran": ran, "needs": "", "base_commit": sh("git rev-parse --short HEAD", cwd=wt)[1].strip(),
            "lines_changed": diff.count("\n+") + diff.count("\n-")}
    json.dump(meta, open(os.path.join(d, "meta.json"), "w"), indent=1)
    print(json.dumps(meta, indent=1))


def cmd_run(sid, tier="quick", props=None, budget=None, inplace=False):
    """Run the checks against the seeded change.  Default: on a scratch copy of /repo's working tree
    selected with VERIF_REPO (so that other work on /repo is not disturbed); --inplace applies the patch
    to /repo itself (git apply ... git checkout -- .), which is how the changes were first confirmed."""
    d = os.path.join(SEEDED, sid)
    meta = json.load(open(os.path.join(d, "meta.json")))
    props = props or [meta["property"]]
    env = dict(os.environ)
    scratch = None
    if inplace:
        rc, out = sh("git status --porcelain", cwd="/repo")
        if out.strip():
            print("refusing: /repo has uncommitted changes:\n" + out)
            return 2
        rc, out = sh("git apply %s" % os.path.join(d, "patch.diff"), cwd="/repo")
    else:
        scratch = "/dev/shm/hsv-seed-%s-%d" % (sid, os.getpid())
        shutil.rmtree(scratch, ignore_errors=True)
        os.makedirs(scratch)
        shutil.copytree("/repo/src", os.path.join(scratch, "src"))
        rc, out = sh("patch -p1 -s < %s" % os.path.join(d, "patch.diff"), cwd=scratch)
        env["VERIF_REPO"] = scratch
    if rc != 0:
        print("patch does not apply:\n" + out)
        return 2
    results = meta.setdefault("checks", {})
    try:
        for p in props:
            t0 = time.time()
            cmd = "%s/check.py %s --tier %s --no-evidence" % (HERE, p, tier)
            if budget:
                cmd += " --budget %s" % budget
            rc, out = sh(cmd, cwd=HERE, env=env)
            lines = [l for l in out.splitlines() if l.startswith(("VIOLATION", "HARNESS", "violation:", p + ":"))]
            print("== %s vs %s (%s): rc=%d %.0fs" % (sid, p, tier, rc, time.time() - t0))
            for l in lines[:4]:
                print("   " + l[:700])
            results["%s:%s" % (p, tier)] = {"rc": rc, "caught": rc == 1, "seconds": round(time.time() - t0),
                                            "first": [l[:400] for l in lines[:2]]}
            for l in lines:
                if l.startswith("VIOLATION") and "replay=" in l:
                    rp = l.split("replay=")[1].strip()
                    if os.path.exists(rp):
                        os.remove(rp)
    finally:
        if inplace:
            sh("git checkout -- .", cwd="/repo")
        else:
            shutil.rmtree(scratch, ignore_errors=True)
    json.dump(meta, open(os.path.join(d, "meta.json"), "w"), indent=1)
    return 0


if __name__ == "__main__":
    if sys.argv[1] == "import":
        cmd_import(sys.argv[2], sys.argv[3], sys.argv[4])
    else:
        tier = "quick"
        props = None
        budget = None
        inplace = "--inplace" in sys.argv
        a = [x for x in sys.argv[3:] if x != "--inplace"]
        while a:
            if a[0] == "--tier":
                tier = a[1]
            elif a[0] == "--props":
                props = a[1].split(",")
            elif a[0] == "--budget":
                budget = a[1]
            a = a[2:]
        sys.exit(cmd_run(sys.argv[2], tier, props, budget, inplace))
